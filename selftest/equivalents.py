"""Behaviour-preserving refactorings: every check must stay silent on them (no false alarms).

Same format as mutants.py; run with `selftest/run_mutants.py --equivalents`.
"""

M = []


def m(id, file, old, new, what):
    M.append(dict(id=id, props=[], file=file, old=old, new=new, what=what))


IDX = "tinyflux/index.py"
DB = "tinyflux/database.py"
ST = "tinyflux/storages.py"
UT = "tinyflux/utils.py"
QU = "tinyflux/queries.py"

m("E01", UT, "    i = bisect.bisect_left(sorted_list, x)\n\n    if i:\n        return i - 1\n\n    return None",
  "    i = 0\n    while i < len(sorted_list) and sorted_list[i] < x:\n        i += 1\n\n    if i:\n        return i - 1\n\n    return None",
  "find_lt as a linear scan")
m("E02", DB, "                else:\n                    self._index.insert([point])\n            elif self._index.valid:",
  "                else:\n                    pending = [point]\n                    try:\n                        pass\n                    finally:\n                        self._index.insert(pending)\n            elif self._index.valid:",
  "index insert through a try/finally (still per point)")
m("E03", ST, "        for item in items:\n            # Write the row.\n            csv_writer.writerow(item)\n",
  "        import io as _io\n\n        for item in items:\n            # Write the row.\n            _buf = _io.StringIO(newline=\"\")\n            csv.writer(_buf, **self.kwargs).writerow(item)\n            handle.write(_buf.getvalue())\n",
  "append renders the row into a StringIO first and writes it in one call")
m("E04", IDX, "                if query._test(test_value):\n                    rst_items = rst_items.union(set(items))\n\n        return rst_items\n\n    def _search_timestamps",
  "                if query._test(test_value):\n                    rst_items.update(items)\n\n        return rst_items\n\n    def _search_timestamps",
  "tag search accumulates with set.update")
m("E05", DB, "            found_points.sort(key=lambda x: (x.time is None, x.time))",
  "            found_points.sort(key=lambda x: x.time)",
  "search sorts by time only (time is never None)")
m("E06", ST, "            # Atomically replace the primary file with auxiliary storage.\n            os.replace(self._temp_handle.name, self._path)",
  "            # Atomically replace the primary file with auxiliary storage.\n            os.replace(self._temp_handle.name, self._path)\n            _dfd = os.open(os.path.dirname(os.path.abspath(self._path)), os.O_RDONLY)\n            try:\n                os.fsync(_dfd)\n            finally:\n                os.close(_dfd)",
  "directory fsync after the atomic replace")
m("E07", DB, "            # Return count of items.\n            return len(index_rst._items)",
  "            # Return count of items.\n            return sum(1 for _ in index_rst._items)",
  "count via a generator sum")
m("E08", QU, "        if self.query2:\n            return self.operator(self.query1(point), self.query2(point))",
  "        if self.query2:\n            left = self.query1(point)\n            right = self.query2(point)\n            return self.operator(left, right)",
  "compound evaluation with temporaries")
m("E09", IDX, "        self._timestamps = [i[0] for i in timestamp_buffer]\n        self._storage_pos_sorted_by_ts = [i[1] for i in timestamp_buffer]",
  "        self._timestamps = []\n        self._storage_pos_sorted_by_ts = []\n        for _ts, _pos in timestamp_buffer:\n            self._timestamps.append(_ts)\n            self._storage_pos_sorted_by_ts.append(_pos)",
  "index build fills the two time arrays in a loop")
m("E10", DB, "        # No items removed, delete temporary memory and do not update storage.\n        if not len(removed_items):\n            return 0",
  "        # No items removed, delete temporary memory and do not update storage.\n        if len(removed_items) == 0:\n            return 0",
  "no-match test spelled differently")

DISABLED = set()
