#!/venv/bin/python
"""Apply each catalogue mutant to a scratch copy of /repo, check that the baseline
tests still pass, run the relevant quick checks against the copy (TFMON_REPO) and
record whether a VIOLATION is reported.  Scratch copies live under /dev/shm and are
removed immediately.

usage: run_mutants.py [ids...] [--all-checks] [--jobs N]
"""
import concurrent.futures as cf
import json
import os
import shutil
import subprocess
import sys
import tempfile

HERE = os.path.dirname(os.path.abspath(__file__))
VERIF = os.path.dirname(HERE)
sys.path.insert(0, HERE)
import mutants  # noqa: E402

ALL_CHECKS = [f"C{i:02d}" for i in range(1, 19)]


def run_one(mu, all_checks, tier):
    base = "/dev/shm" if os.access("/dev/shm", os.W_OK) else tempfile.gettempdir()
    d = tempfile.mkdtemp(prefix=f"mut-{mu['id']}-", dir=base)
    repo = os.path.join(d, "repo")
    out = {"id": mu["id"], "what": mu["what"], "expected": mu["props"]}
    try:
        shutil.copytree("/repo", repo, ignore=shutil.ignore_patterns(".git", "__pycache__", "*.egg-info", "docs", "examples", "artwork"))
        p = os.path.join(repo, mu["file"])
        s = open(p).read()
        if s.count(mu["old"]) != mu.get("count", 1):
            out["status"] = f"does-not-apply (old text occurs {s.count(mu['old'])}x)"
            return out
        open(p, "w").write(s.replace(mu["old"], mu["new"]))
        env = dict(os.environ, TFMON_REPO=repo, PYTHONHASHSEED="0", PYTHONDONTWRITEBYTECODE="1")
        r = subprocess.run(["/venv/bin/python", "-m", "pytest", "-q", "-x", "-p", "no:cacheprovider", "tests"], cwd=repo, env=env, capture_output=True, text=True, timeout=900)
        tail = r.stdout.strip().splitlines()[-1] if r.stdout.strip() else ""
        out["tests"] = tail
        if r.returncode != 0:
            out["status"] = "invalid: existing tests fail"
            return out
        caught, missed, other = [], [], []
        for c in (ALL_CHECKS if all_checks else mu["props"]):
            ev = os.path.join(d, "evidence")
            r = subprocess.run([os.path.join(VERIF, "check"), c, "--tier", tier], cwd=VERIF, env=dict(env, TFMON_EVIDENCE_DIR=ev, TFMON_OUT_DIR=os.path.join(d, "out")), capture_output=True, text=True, timeout=3000)
            v = [l for l in r.stdout.splitlines() if l.startswith("VIOLATION")]
            kinds = sorted({l.split("kind=")[1].split(" ")[0] for l in r.stdout.splitlines() if l.strip().startswith("kind=")})
            if r.returncode == 1 and v:
                (caught if c in mu["props"] else other).append({"check": c, "kinds": kinds})
            elif c in mu["props"]:
                missed.append({"check": c, "rc": r.returncode, "tail": r.stdout.strip().splitlines()[-1][:200] if r.stdout.strip() else r.stderr[-200:]})
        out["caught_by"] = caught
        out["missed_by"] = missed
        out["also_fired"] = other
        out["status"] = "caught" if caught else "SURVIVED"
        if not mu["props"]:
            out["status"] = "FALSE ALARM" if other else "silent (as it should be)"
        return out
    except Exception as e:  # noqa: BLE001
        out["status"] = f"runner error: {e!r}"
        return out
    finally:
        shutil.rmtree(d, ignore_errors=True)


def main():
    args = [a for a in sys.argv[1:] if not a.startswith("--")]
    all_checks = "--all-checks" in sys.argv
    tier = "thorough" if "--thorough" in sys.argv else "quick"
    jobs = 3
    for a in sys.argv[1:]:
        if a.startswith("--jobs="):
            jobs = int(a.split("=")[1])
    catalogue = mutants
    if "--equivalents" in sys.argv:
        import equivalents as catalogue  # behaviour-preserving refactorings: nothing may fire

        all_checks = True
    todo = [mu for mu in catalogue.M if mu["id"] not in catalogue.DISABLED and (not args or mu["id"] in args)]
    results = []
    with cf.ThreadPoolExecutor(max_workers=jobs) as ex:
        for r in ex.map(lambda mu: run_one(mu, all_checks, tier), todo):
            results.append(r)
            print(r["id"], r["status"], "| caught by", [c["check"] for c in r.get("caught_by", [])], "| missed by", [c["check"] for c in r.get("missed_by", [])], "| also", [c["check"] for c in r.get("also_fired", [])], "|", r.get("tests", ""), flush=True)
    path = os.path.join(HERE, "results.json")
    old = {}
    if os.path.exists(path):
        old = {r["id"]: r for r in json.load(open(path))}
    for r in results:
        old[r["id"]] = r
    json.dump([old[k] for k in sorted(old)], open(path, "w"), indent=1)


if __name__ == "__main__":
    main()
