"""Seeded generators over deliberately tiny vocabularies (things collide)."""
import re

from . import qast

# Base instant: 2021-03-04T05:06:07.000008Z
BASE_US = 1_614_834_367_000_008
GRID = [
    BASE_US,
    BASE_US + 1,
    BASE_US - 1,
    BASE_US + 2,
    BASE_US + 3_600_000_000,
    BASE_US - 3_600_000_000,
    BASE_US + 86_400_000_000,
    BASE_US - 7 * 86_400_000_000,
]
OFFSETS = [0, 0, 0, 60, -480, 345, 630, -210, 840]  # minutes

MEAS = ["m0", "m1", "_default"]
TAG_KEYS = ["k", "j", "t", "f_"]
TAG_VALS = ["a", "b", "A1", "", None]
FIELD_KEYS = ["x", "y"]
FIELD_VALS = [0, 1, -1, 2, 2.5, -0.0, None]

REGEXES = ["a", "^A", "[ab]", "^$", r"m\d", ".*", "B", "^a$"]

NASTY = [
    ",", ";", '"', "'", "\\", "\r", "\n", "\r\n", "\x00", "\x1a", " ", "  x ",
    "﻿", "_none", "_tag_x", "_field_x", "t_x", "f_x", "_", "t", "f",
    "tx", "fx", "_t", "_f", "", "\U0001F600", "é", "é", "a,b",
    'a"b', "a\nb", "a\r\nb", "=1+1", "-", "-5", "12", "1.5", "nan", "inf",
    "None", "null", "\t", "\x0b", "\x0c", "\x1c", "\x85", " ",
]


def gen_time(rng, grid=GRID):
    return ("T", rng.choice(grid), rng.choice(OFFSETS))


EPOCH_GRID = [0, 0, 1, -1, -86_400_000_000, 3_600_000_000, -1_000_000, 999_999, BASE_US, -2_208_988_800_000_000]

# instants later than "now" (year 2200): a point stamped with the insertion time is then NOT the newest one
Y2200_US = 7_258_118_400_000_000
FUTURE_GRID = [BASE_US, BASE_US + 1, BASE_US - 3_600_000_000, Y2200_US, Y2200_US + 1, Y2200_US - 1, Y2200_US + 86_400_000_000, BASE_US + 3_600_000_000]


# A pool of strings that tend to mean something to some layer (csv, regex, glob, python, unicode, the row layout)
# without being invalid anywhere: measurement names, tag keys, tag values and field keys are drawn from it per history.
NASTY = [
    "a", "a ", " a", "A", "a.b", "a,b", "a b", "a*", "a?", "[a]", "a%", "(a)", "a+", "^a$", "\\d", "a\\b",
    "\u00e4", "a\u0308", "\uff41", "\u00df", "ss", "SS", "\u0130", "i", "I", "\u212a", "K", "\ufb01", "fi",
    "a_", "_a", "__a__", "class", "from_", "None", "none", "True", "0", "-1", "1.5", "1e3", "nan", "inf", "-0.0",
    "t_a", "f_a", "_tag_a", "_field_a", "_time", "time", "measurement", "tags", "fields", "tags.a", "fields.a", "_default", "_measurement",
    "a\tb", "a\nb", "a\r\nb", "\ra", "a\r", '"a"', "'a'", 'a"b', "a\\", "a/b", "a;b", "a|b", "a=b", "a:b", "{a}", "$a", "#a", "a#b", "--", "",
    "a" * 300, "\ufeffa", "a\u200b", "\U0001f600", "\u4e2d\u6587", "\u0627\u0644", "2021-03-04T05:06:07+00:00", "a\x00b", "\x1f", "a\x7fb",
]


# instants before the epoch with a fractional second (negative timestamps with microseconds), and the ends of the
# supported range (years 1700 and 2239)
OLD_GRID = [-3_786_825_599_876_543, -3_786_825_599_876_542, -631_151_999_000_001, -1, -999_999, -1_000_001, -86_399_999_999, BASE_US]
EDGE_GRID = [-8_520_336_000_000_000 + 5, -8_520_336_000_000_000 + 6, 8_520_336_000_000_000 - 7, 8_520_336_000_000_000 - 6, BASE_US, 0]


def admissible(x, dialect=None, encoding=None):
    """Can the csv module itself carry the cell under this dialect (e.g. a bare CR is a row end to every reader but is
    only quoted by a writer whose lineterminator contains it), and can the encoding express it?"""
    import csv
    import io

    try:
        x.encode(encoding or "utf-8")
    except UnicodeEncodeError:
        return False
    if not dialect:
        return True
    row = ["lead", x, "trail"]
    try:
        buf = io.StringIO(newline="")
        csv.writer(buf, **dialect).writerow(row)
        return list(csv.reader(io.StringIO(buf.getvalue(), newline=""), **dialect)) == [row]
    except Exception:
        return False


def wild_vocabulary(rng, n=4, allow_empty=False, ok=None):
    """n strings from NASTY plus, for each, a near neighbour (a variant that some normalisation would merge with it)."""
    pool = [x for x in NASTY if (allow_empty or x != "") and (ok is None or ok(x))]
    picks = rng.sample(pool, min(n, len(pool)))
    out = []
    for x in picks:
        out.append(x)
        r = rng.random()
        if r < 0.2:
            out.append(x + " ")
        elif r < 0.35:
            out.append(x.upper() if x.upper() != x else x.lower())
        elif r < 0.5:
            out.append(x[:-1] if len(x) > 1 else x + x)
        elif r < 0.6:
            out.append("_" + x)
        elif r < 0.7:
            out.append(x + "_")
    seen, res = set(), []
    for x in out:
        if x not in seen and (ok is None or ok(x)):
            seen.add(x)
            res.append(x)
    return res


def make_wild(prof, rng, cfg=None):
    """Turn a profile into a 'wild' one: its names, keys and values come from NASTY (a small set per history, so
    that points still collide), numbers from a pool of awkward floats."""
    dialect = (cfg or {}).get("csv") or None
    encoding = (cfg or {}).get("encoding")
    ok = (lambda x: admissible(x, dialect, encoding)) if (dialect or encoding) else None
    prof.meas = [x for x in wild_vocabulary(rng, 3, ok=ok) if x != "_none"] or ["m0"]
    prof.extra_meas = []
    prof.extra_tag_keys = [x for x in wild_vocabulary(rng, 2, allow_empty=True, ok=ok)]
    prof.extra_field_keys = [x for x in wild_vocabulary(rng, 2, allow_empty=True, ok=ok)]
    prof.extra_tag_vals = [x for x in wild_vocabulary(rng, 3, allow_empty=True, ok=ok) if x != "_none"]
    prof.extra_field_vals = list(prof.extra_field_vals) + rng.sample([1e-9, 1e22, -1e-300, 5e-324, 1.0000000000000002, 123456789.123456789, 0.1, -2.5, float("inf"), float("-inf"), 3, -7], 3)
    if prof.grid is None:
        prof.grid = rng.choice([None, None, EPOCH_GRID, FUTURE_GRID, OLD_GRID, EDGE_GRID])
    prof.wild = True
    return prof


def gen_point(rng, meas=MEAS, allow_no_time=False, extra_tag_vals=(), extra_meas=(), extra_tag_keys=(), extra_field_keys=(), grid=None, extra_field_vals=()):
    """A point spec: {"t": ("T",us,off)|None, "m": str|None, "tags", "fields"}."""
    p = {}
    if allow_no_time and rng.random() < 0.1:
        p["t"] = None
        if rng.random() < 0.5:
            p["bare"] = True  # built as Point() and filled in by assignment: no time at all until the insert
    else:
        p["t"] = gen_time(rng, grid or GRID)
    r = rng.random()
    if r < 0.15:
        p["m"] = None  # omitted -> "_default"
    else:
        p["m"] = rng.choice(list(meas) + list(extra_meas))
    tags = {}
    for k in TAG_KEYS + list(extra_tag_keys):
        if rng.random() < 0.4:
            tags[k] = rng.choice(TAG_VALS + list(extra_tag_vals))
    fields = {}
    for k in FIELD_KEYS + list(extra_field_keys):
        if rng.random() < 0.55:
            fields[k] = rng.choice(FIELD_VALS + list(extra_field_vals))
    p["tags"] = tags
    p["fields"] = fields
    if p["t"] is not None and rng.random() < 0.15:
        p["assign"] = True  # built as Point() and filled in by attribute assignment
    if rng.random() < 0.08:
        p["subclass"] = True  # an instance of an application's subclass of Point
    return p


def gen_atom(rng, opts):
    """One atomic query. opts: dict of feature switches."""
    kinds = ["time", "time", "meas", "tag", "tag", "field", "field", "exists"]
    if opts.get("regex", True):
        kinds.append("regex")
    if opts.get("test", True):
        kinds.append("test")
    if opts.get("map", True):
        kinds.append("map")
    if opts.get("noop", True):
        kinds.append("noop")
    k = rng.choice(kinds)
    ops = list(qast.OPS)
    if k == "time":
        us = rng.choice(GRID) + rng.choice([0, 0, 0, 1, -1])
        return ("cmp", "time", (), rng.choice(ops), ("T", us, rng.choice(OFFSETS)))
    if k == "meas":
        return ("cmp", "measurement", (), rng.choice(ops), rng.choice(MEAS + ["zz"]))
    if k == "tag":
        rhs = rng.choice(TAG_VALS + ["zz"])
        op = rng.choice(["==", "!="]) if rhs is None else rng.choice(ops)
        return ("cmp", "tags", (rng.choice(TAG_KEYS + ["nokey"]),), op, rhs)
    if k == "field":
        rhs = rng.choice(FIELD_VALS + [3, -2.5])
        op = rng.choice(["==", "!="]) if rhs is None else rng.choice(ops)
        return ("cmp", "fields", (rng.choice(FIELD_KEYS + ["nokey"]),), op, rhs)
    if k == "exists":
        if rng.random() < 0.5:
            return ("exists", "tags", rng.choice(TAG_KEYS + ["nokey"]))
        return ("exists", "fields", rng.choice(FIELD_KEYS + ["nokey"]))
    if k == "regex":
        kind = rng.choice(["matches", "search"])
        flags = rng.choice([0, 0, int(re.I)])
        if rng.random() < 0.7:
            return ("regex", "tags", (rng.choice(TAG_KEYS),), kind, rng.choice(REGEXES), flags)
        return ("regex", "measurement", (), kind, rng.choice(REGEXES), flags)
    if k == "test":
        c = rng.randrange(9)
        if c == 7:
            # an operator-module function as the test function of a TimeQuery (stored points always have a time)
            us = rng.choice(GRID) + rng.choice([0, 1, -1])
            return ("test", "time", (), rng.choice(["op_lt", "op_ge", "op_eq", "op_ne"]), (("T", us, rng.choice(OFFSETS)),))
        if c == 8:
            return ("test", "measurement", (), rng.choice(["op_eq", "op_ne", "op_lt"]), (rng.choice(MEAS),))
        if c == 0:
            return ("test", "tags", (rng.choice(TAG_KEYS),), "is_none", ())
        if c == 1:
            return ("test", "tags", (rng.choice(TAG_KEYS),), "truthy", ())
        if c == 2:
            return ("test", "fields", (rng.choice(FIELD_KEYS),), rng.choice(["num_pos", "num_pos", "signbit"]), ())
        if c == 3:
            return ("test", "fields", (rng.choice(FIELD_KEYS),), "is_none", ())
        if c == 4:
            return ("test", "measurement", (), "eq_arg", (rng.choice(MEAS),))
        if c == 5:
            return ("test", "time", (), "even_us", ())
        if rng.random() < 0.5:
            return ("test", "fields", (rng.choice(FIELD_KEYS),), "between_args", (rng.choice([-1, 0]), rng.choice([1, 2.5])))
        return ("test", "fields", (rng.choice(FIELD_KEYS),), "in_args", (0, 2.5))
    if k == "map":
        c = rng.randrange(10)
        if c == 8:
            # a map function that raises: the path cannot be resolved, the query is false (never an error)
            return ("cmp", "measurement", (("map", "raise"),), rng.choice(["==", "!="]), rng.choice(MEAS))
        if c == 9:
            return ("cmp", "time", (("map", "raise"),), rng.choice(ops), ("T", rng.choice(GRID), 0))
        if c == 0:
            if rng.random() < 0.5:
                # several distinct stored tag values have the same image ("", "a", "b" -> "short"; None has none: false)
                return ("cmp", "tags", (rng.choice(TAG_KEYS), ("map", "size")), rng.choice(["==", "==", "!=", "<"]), rng.choice(["short", "short", "long"]))
            return ("cmp", "tags", (rng.choice(TAG_KEYS), ("map", "upper")), "==", rng.choice(["A", "B", "A1", ""]))
        if c == 1:
            return ("cmp", "fields", (rng.choice(FIELD_KEYS), ("map", "neg")), rng.choice(ops), rng.choice([0, 1, -1]))
        if c == 2:
            return ("cmp", "fields", (rng.choice(FIELD_KEYS), ("map", "abs")), rng.choice(ops), rng.choice([1, 2, 2.5]))
        if c == 3:
            return ("cmp", "measurement", (("map", "first"),), "==", rng.choice(["m", "_"]))
        if c == 4:
            return ("cmp", "measurement", (("map", "upper"),), rng.choice(ops), rng.choice(["M0", "M1", "_DEFAULT"]))
        if c == 5:
            us = rng.choice(GRID)
            return ("cmp", "time", (("map", "trunc_s"),), rng.choice(ops), ("T", us - us % 1_000_000, 0))
        if c == 6:
            return ("cmp", "time", (("map", "plus1us"),), rng.choice(ops), ("T", rng.choice(GRID), rng.choice(OFFSETS)))
        return ("cmp", "tags", (rng.choice(TAG_KEYS), ("map", "raise")), "==", "a")
    if k == "noop" and rng.random() < 0.25:
        # exists() on a path of two keys (never true: tag and field values are not mappings)
        attr = rng.choice(["tags", "fields"])
        return ("exists", attr, (rng.choice(TAG_KEYS if attr == "tags" else FIELD_KEYS), rng.choice(["a", "x", "real"])))
    # noop - also on a query that already names a key: it still matches every point
    attr = rng.choice(["time", "measurement", "tags", "fields"])
    if attr in ("tags", "fields") and rng.random() < 0.4:
        return ("noop", attr, (rng.choice((TAG_KEYS if attr == "tags" else FIELD_KEYS) + ["nokey"]),))
    return ("noop", attr)


def gen_query(rng, max_depth=3, opts=None):
    opts = opts or {}
    if max_depth <= 0 or rng.random() < 0.35:
        return gen_atom(rng, opts)
    r = rng.random()
    if r < 0.3:
        return ("not", gen_query(rng, max_depth - 1, opts))
    if r < 0.65:
        return ("and", gen_query(rng, max_depth - 1, opts), gen_query(rng, max_depth - 1, opts))
    return ("or", gen_query(rng, max_depth - 1, opts), gen_query(rng, max_depth - 1, opts))


def time_probe_queries(model_points):
    """All six comparisons at each stored instant and its +-1us neighbours."""
    out = []
    seen = set()
    for p in model_points:
        for d in (0, 1, -1):
            us = p.t + d
            if us in seen:
                continue
            seen.add(us)
            for op in qast.OPS:
                out.append(("cmp", "time", (), op, ("T", us, 0)))
    return out


# ---------------------------------------------------------------------------
# Update argument sets.


def gen_update_args(rng, opts=None):
    """Non-empty update argument set; static or callable per slot."""
    opts = opts or {}
    while True:
        a = {}
        if rng.random() < 0.3:
            if rng.random() < 0.5:
                a["time"] = {"static": gen_time(rng)}
            else:
                a["time"] = {"call": rng.choice(["t_plus_1h", "t_minus_1d", "t_same", "t_plus_1us", "t_other_zone"])}
        if rng.random() < 0.3:
            if rng.random() < 0.5:
                a["measurement"] = {"static": rng.choice(MEAS + ["m2"])}
            else:
                a["measurement"] = {"call": rng.choice(["m_upper", "m_same", "m_const_m1", "m_suffix"])}
        if rng.random() < 0.4:
            if rng.random() < 0.5:
                n = rng.choice([1, 1, 2])
                a["tags"] = {"static": {rng.choice(TAG_KEYS + ["n", "f", "kj", "", "k j", "k,j"]): rng.choice(TAG_VALS) for _ in range(n)}}
            else:
                a["tags"] = {"call": rng.choice(["tags_add_k", "tags_only_new", "tags_empty", "tags_same", "tags_none_j", "tags_inplace_add", "tags_inplace_pop"])}
        if rng.random() < 0.4:
            if rng.random() < 0.5:
                n = rng.choice([1, 1, 2])
                a["fields"] = {"static": {rng.choice(FIELD_KEYS + ["n", "xy", "", "x y", "x,y"]): rng.choice(FIELD_VALS + [2.0000000001, 1.0000000000000002]) for _ in range(n)}}
            else:
                a["fields"] = {"call": rng.choice(["fields_inc_x", "fields_only_new", "fields_empty", "fields_same", "fields_none_y", "fields_inplace_set", "fields_inplace_clear", "fields_nudge_x", "fields_scale_x"])}
                if rng.random() < 0.15:
                    a["reentrant"] = True  # the callable also reads from the database (index-served answers)
        if rng.random() < 0.25:
            ks = rng.sample(TAG_KEYS + ["n", "kj", "f", "k j", "k,j"], rng.choice([1, 1, 2]))  # a key is a literal, blanks and commas included
            a["unset_tags"] = ks[0] if len(ks) == 1 and rng.random() < 0.5 else ks
        if rng.random() < 0.25:
            ks = rng.sample(FIELD_KEYS + ["n", "xy", "x y", "x,y"], rng.choice([1, 1, 2]))
            a["unset_fields"] = ks[0] if len(ks) == 1 and rng.random() < 0.5 else ks
        if ("tags" in a and "static" in a["tags"]) or ("fields" in a and "static" in a["fields"]):
            if rng.random() < 0.3:
                a["mapping_form"] = rng.choice(["ordered", "proxy", "chainmap"])
        for k in ("unset_tags", "unset_fields"):
            if isinstance(a.get(k), list) and rng.random() < 0.5:
                # any iterable of strings is documented: tuples, sets, one-shot generators
                a[k + "_form"] = rng.choice(["tuple", "gen", "keys"])
        if a:
            return a
