"""Reach evidence with sys.monitoring (3.12): which source lines of the anchored
functions were executed by the workload.  Local LINE events on the code objects
of the named functions only; the callback returns DISABLE after the first hit of
a line, so the cost is negligible.  Used as evidence and for gating (a deciding
branch that was never taken makes the run inconclusive), never as a verdict.
"""
import sys

TOOL = 3  # a free tool id (0-5; 0 debugger, 1 coverage, 2 profiler are conventional)
_hits = {}
_active = False


def _callback(code, line):
    _hits.setdefault(code.co_qualname, set()).add(line)
    return sys.monitoring.DISABLE


def start(functions):
    """functions: iterable of python functions / unbound methods (decorated ones are unwrapped)."""
    global _active
    if not hasattr(sys, "monitoring"):
        return False
    mon = sys.monitoring
    try:
        mon.use_tool_id(TOOL, "tfmon-reach")
    except ValueError:
        pass
    mon.register_callback(TOOL, mon.events.LINE, _callback)
    for f in functions:
        while hasattr(f, "__wrapped__"):
            f = f.__wrapped__
        code = getattr(f, "__code__", None)
        if code is not None:
            mon.set_local_events(TOOL, code, mon.events.LINE)
    _active = True
    return True


def collect(res, prefix="lines"):
    """Store executed lines per function into res.sets (merged by union over workers)."""
    for name, lines in _hits.items():
        res.sets.setdefault(f"{prefix}.{name}", set()).update(lines)


def anchored_read_write_functions():
    import tinyflux.database as d
    import tinyflux.index as i

    T, I = d.TinyFlux, i.Index
    return [
        T.search, T.count, T.contains, T.get, T.select, T._remove_helper, T._update_helper, T._insert_helper,
        T._reset_database, I._search_helper, I._search_timestamps, I._search_tags, I._search_fields,
        I._search_measurement, I.remove, I.update, I.insert, I.build,
    ]


def unreached(res, functions, prefix="lines"):
    """Executable lines of the anchored functions that no worker executed (computed in the parent)."""
    out = {}
    for f in functions:
        while hasattr(f, "__wrapped__"):
            f = f.__wrapped__
        code = getattr(f, "__code__", None)
        if code is None:
            continue
        lines = {ln for _, _, ln in code.co_lines() if ln is not None and ln != code.co_firstlineno}
        hit = set(res.sets.get(f"{prefix}.{code.co_qualname}", ()))
        if hit:
            out[code.co_qualname] = sorted(lines - hit)
    return out
