"""Result / Violation containers, evidence writer, verdict printing, sharding."""
import hashlib
import json
import os
import subprocess
import sys
import time

from . import VERIF

LEVELS = {
    "C01": "exploration", "C02": "exploration", "C03": "exploration",
    "C04": "exploration", "C05": "exploration", "C06": "exploration",
    "C07": "exploration", "C08": "exploration", "C09": "exploration",
    "C10": "exploration", "C11": "fault_enumeration", "C12": "fault_enumeration",
    "C13": "fault_enumeration", "C14": "exploration", "C15": "exploration",
    "C16": "exploration", "C17": "exploration", "C18": "exploration",
}


def jsonable(x):
    if isinstance(x, (str, int, float, bool)) or x is None:
        return x
    if isinstance(x, bytes):
        return {"bytes": x[:200].hex(), "len": len(x)}
    if isinstance(x, dict):
        return {str(k): jsonable(v) for k, v in x.items()}
    if isinstance(x, (list, tuple, set, frozenset)):
        return [jsonable(i) for i in x]
    return repr(x)[:300]


def h64(obj):
    s = obj if isinstance(obj, bytes) else repr(obj).encode("utf-8", "backslashreplace")
    return int.from_bytes(hashlib.blake2b(s, digest_size=8).digest(), "big")


class Violation:
    def __init__(self, prop, kind, detail, replay=None, features=None):
        self.prop = prop
        self.kind = kind  # short mechanism-level label
        self.detail = detail  # JSON-able dict: expected / observed / config
        self.replay = replay  # JSON-able dict re-runnable by the check
        self.features = features or {}
        self.known_key = None

    def to_json(self):
        return {
            "property": self.prop,
            "kind": self.kind,
            "detail": jsonable(self.detail),
            "features": jsonable(self.features),
            "replay": jsonable(self.replay),
            "known_key": self.known_key,
        }


class Result:
    def __init__(self, prop, tier, seed):
        self.prop = prop
        self.tier = tier
        self.seed = seed
        self.evaluations = 0
        self.distinct = set()  # 64-bit hashes of distinct non-trivial cases
        self.rule = ""
        self.samples = []
        self.counters = {}
        self.violations = []
        self.known = {}
        self.known_desc = {}
        self.inconclusive = []
        self.assumptions = []
        self.exhaustive = None
        self.shard = None
        self.nshards = None
        self.sets = {}  # name -> set of hashables, merged by union (e.g. executed source lines)
        self.notes = []
        self.t0 = time.time()

    # -- recording -----------------------------------------------------------
    def count(self, key, n=1):
        self.counters[key] = self.counters.get(key, 0) + n

    def seen(self, obj):
        self.distinct.add(h64(obj))

    def sample(self, obj, limit=6):
        if len(self.samples) < limit:
            self.samples.append(jsonable(obj))

    def violate(self, v, limit=40):
        """Record a violation; listed known findings are tallied apart and never use up the limit."""
        from .findings import classify

        key = classify(v)
        if key is not None:
            v.known_key = key[0]
            self.known[key[0]] = self.known.get(key[0], 0) + 1
            self.known_desc[key[0]] = key[1]
            return
        if isinstance(v.replay, dict) and self.shard is not None:
            v.replay.setdefault("_rerun", {"tier": self.tier, "seed": self.seed, "shard": self.shard, "nshards": self.nshards, "tz": os.environ.get("TZ")})
        if len(self.violations) < limit:
            self.violations.append(v)
        self.count("violations_raised")

    def require(self, key, minimum=1):
        """Reach gate: the deciding monitor must have been evaluated."""
        if self.counters.get(key, 0) < minimum:
            self.inconclusive.append(f"counter {key}={self.counters.get(key, 0)} < {minimum}")

    # -- (de)serialisation for shard workers -----------------------------------
    def dump(self):
        return {
            "prop": self.prop, "tier": self.tier, "seed": self.seed,
            "evaluations": self.evaluations, "distinct": sorted(self.distinct),
            "rule": self.rule, "samples": self.samples, "counters": self.counters,
            "violations": [v.to_json() for v in self.violations],
            "known": self.known, "known_desc": self.known_desc,
            "inconclusive": self.inconclusive, "assumptions": self.assumptions,
            "exhaustive": self.exhaustive, "notes": self.notes,
            "sets": {k: sorted(v) for k, v in self.sets.items()},
        }

    def merge_dump(self, d):
        self.evaluations += d["evaluations"]
        self.distinct.update(d["distinct"])
        self.rule = self.rule or d["rule"]
        for s in d["samples"]:
            if len(self.samples) < 8:
                self.samples.append(s)
        for k, n in d["counters"].items():
            if isinstance(n, (int, float)):
                self.counters[k] = self.counters.get(k, 0) + n
            else:
                self.counters.setdefault(k, n)
        for v in d["violations"]:
            vv = Violation(v["property"], v["kind"], v["detail"], v["replay"], v["features"])
            vv.known_key = v.get("known_key")
            self.violations.append(vv)
        for k, n in d.get("known", {}).items():
            self.known[k] = self.known.get(k, 0) + n
            self.known_desc[k] = d["known_desc"][k]
        self.inconclusive.extend(d["inconclusive"])
        for a in d["assumptions"]:
            if a not in self.assumptions:
                self.assumptions.append(a)
        if d.get("exhaustive") is not None:
            self.exhaustive = d["exhaustive"] if self.exhaustive is None else (self.exhaustive and d["exhaustive"])
        for n in d.get("notes", []):
            if n not in self.notes:
                self.notes.append(n)
        for k, v in d.get("sets", {}).items():
            self.sets.setdefault(k, set()).update(v)


def write_replay(v, idx):
    d = os.path.join(os.environ.get("TFMON_OUT_DIR") or os.path.join(VERIF, "out"), "replays")
    os.makedirs(d, exist_ok=True)
    body = json.dumps(v.to_json(), indent=1, sort_keys=True, default=repr)
    name = f"{v.prop}-{h64(body) % 10**10:010d}-{idx}.json"
    path = os.path.join(d, name)
    with open(path, "w") as f:
        f.write(body)
    return path


def finish(res, known_keys_hit=()):
    """Write evidence, print verdict lines, return the exit code."""
    from .findings import classify

    wall = time.time() - res.t0
    real_violations = []
    known_hit = dict(res.known_desc)
    for v in res.violations:
        key = classify(v)
        if key is None:
            real_violations.append(v)
        else:
            v.known_key = key[0]
            known_hit.setdefault(key[0], key[1])

    level = LEVELS[res.prop]
    cov = {
        "evaluations": int(res.evaluations),
        "distinct_nontrivial": len(res.distinct),
        "rule": res.rule,
        "samples": res.samples[:8] or ["<none>"],
        "counters": {k: res.counters[k] for k in sorted(res.counters)},
    }
    if res.exhaustive is not None:
        cov["exhaustive"] = bool(res.exhaustive)
    if res.notes:
        cov["notes"] = res.notes
    if res.sets:
        cov["reach"] = {k: sorted(v) for k, v in sorted(res.sets.items())}
    cov["known_findings_observed"] = {k: res.known.get(k, 1) for k in sorted(known_hit)}
    verdict = "held"
    if real_violations:
        verdict = "violated"
    elif res.inconclusive:
        verdict = "inconclusive"
    cov["verdict"] = verdict
    if res.inconclusive:
        cov["inconclusive_reasons"] = res.inconclusive[:10]
    ev = {
        "property_id": res.prop,
        "tier": res.tier,
        "seed": int(res.seed),
        "level": level,
        "coverage": cov,
        "assumptions": res.assumptions,
        "wall_s": round(wall, 3),
        "violations": len(real_violations),
    }
    evdir = os.environ.get("TFMON_EVIDENCE_DIR") or os.path.join(VERIF, "evidence")
    os.makedirs(evdir, exist_ok=True)
    tmp = os.path.join(evdir, f".{res.prop}.json.tmp")
    with open(tmp, "w") as f:
        json.dump(ev, f, indent=1, sort_keys=True, default=repr)
        f.write("\n")
    os.replace(tmp, os.path.join(evdir, f"{res.prop}.json"))

    for key in sorted(known_hit):
        print(f"KNOWN-FINDING: property={res.prop} {key}: {known_hit[key]}")
    print(
        f"[{res.prop}/{res.tier}] evaluations={res.evaluations} distinct={len(res.distinct)} "
        f"wall={wall:.1f}s verdict={verdict}"
    )
    interesting = {k: v for k, v in sorted(res.counters.items())}
    print(f"[{res.prop}] counters: {json.dumps(interesting, default=repr)[:1800]}")
    if real_violations:
        seen_kinds = set()
        n = 0
        for i, v in enumerate(real_violations):
            if v.kind in seen_kinds and n >= 3:
                continue
            seen_kinds.add(v.kind)
            n += 1
            path = write_replay(v, i)
            print(f"VIOLATION property={res.prop} replay={path}")
            print(f"  kind={v.kind} detail={json.dumps(jsonable(v.detail), default=repr)[:1500]}")
            if n >= 8:
                break
        return 1
    if res.inconclusive:
        for r in res.inconclusive[:5]:
            print(f"INCONCLUSIVE property={res.prop} reason={r}")
        return 2
    return 0


def run_sharded(prop, tier, seed, nshards, timeout_s, extra_args=()):
    """Fan out over subprocess workers (no multiprocessing.Pool)."""
    res = Result(prop, tier, seed)
    outdir = os.path.join(os.environ.get("TFMON_OUT_DIR") or os.path.join(VERIF, "out"), "shards")
    os.makedirs(outdir, exist_ok=True)
    procs = []
    env = dict(os.environ)
    env["PYTHONHASHSEED"] = "0"
    env["VERIF_SEED"] = str(seed)
    for i in range(nshards):
        outp = os.path.join(outdir, f"{prop}-{tier}-{os.getpid()}-{i}.json")
        cmd = [
            sys.executable, "-m", "tfmon.cli", prop, "--tier", tier,
            "--shard", str(i), "--nshards", str(nshards), "--worker-out", outp,
        ] + list(extra_args)
        p = subprocess.Popen(cmd, cwd=VERIF, env=env, stdout=subprocess.PIPE, stderr=subprocess.STDOUT)
        procs.append((i, p, outp))
    deadline = time.time() + timeout_s
    for i, p, outp in procs:
        try:
            so, _ = p.communicate(timeout=max(1, deadline - time.time()))
        except subprocess.TimeoutExpired:
            p.kill()
            p.communicate()
            res.inconclusive.append(f"shard {i} watchdog fired after {timeout_s}s")
            continue
        if not os.path.exists(outp):
            tail = so.decode("utf-8", "replace")[-600:]
            res.inconclusive.append(f"shard {i} died rc={p.returncode}: {tail}")
            continue
        with open(outp) as f:
            res.merge_dump(json.load(f))
        os.unlink(outp)
    return res
