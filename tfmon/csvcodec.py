"""Independent reader for the documented CSV row layout.

Shares no code with tinyflux.point / tinyflux.storages: opens the file by
path, uses the csv module with the configured dialect and decodes

    time(iso, UTC, naive) , measurement , {tag key , tag value}* , {field key , field value}*

tag keys carry the prefix "_tag_" (default) or "t_" (compact), field keys
"_field_" or "f_"; "_none" stands for None.
"""
import csv
import io
from datetime import datetime, timezone

from .common import to_us
from .model import MPoint


class DecodeError(Exception):
    pass


def decode_rows(rows):
    out = []
    for n, row in enumerate(rows):
        try:
            if len(row) < 2 or len(row) % 2:
                raise DecodeError(f"row {n}: bad length {len(row)}")
            dt = datetime.fromisoformat(row[0])
            if dt.tzinfo is not None:
                raise DecodeError(f"row {n}: time carries an offset: {row[0]!r}")
            t = to_us(dt.replace(tzinfo=timezone.utc))
            m = row[1]
            tags, fields = {}, {}
            in_fields = False
            for i in range(2, len(row), 2):
                k, v = row[i], row[i + 1]
                if not in_fields and k.startswith("_tag_"):
                    tags[k[5:]] = None if v == "_none" else v
                elif not in_fields and k.startswith("t_"):
                    tags[k[2:]] = None if v == "_none" else v
                elif k.startswith("_field_") or k.startswith("f_"):
                    in_fields = True
                    key = k[7:] if k.startswith("_field_") else k[2:]
                    if v == "_none":
                        fields[key] = None
                    else:
                        fields[key] = float(v)
                else:
                    raise DecodeError(f"row {n}: bad key cell {k!r}")
            out.append(MPoint(t, m, tags, fields))
        except DecodeError:
            raise
        except Exception as e:  # malformed cell
            raise DecodeError(f"row {n}: {type(e).__name__}: {e}")
    return out


def decode_bytes(data, encoding=None, csv_kwargs=None):
    """Decode raw file bytes; raises DecodeError when not decodable."""
    try:
        if encoding is None:
            import locale

            enc = locale.getencoding()
        else:
            enc = encoding
        text = data.decode(enc)
    except Exception as e:
        raise DecodeError(f"encoding: {type(e).__name__}: {e}")
    try:
        rows = list(csv.reader(io.StringIO(text, newline=""), **(csv_kwargs or {})))
    except Exception as e:
        raise DecodeError(f"csv: {type(e).__name__}: {e}")
    return decode_rows(rows)


def decode_file(path, encoding=None, csv_kwargs=None):
    with open(path, "rb") as f:
        data = f.read()
    return decode_bytes(data, encoding, csv_kwargs)
