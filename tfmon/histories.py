"""History generation and the generic history runner shared by C01-C03/C06/C07/C10."""
from . import gen, qast
from .model import MPoint
from .session import GETTERS, QUERY_READS, Session, cfg_name

MAX_ROWS = 12


class Profile:
    """Operation mix. Weights are relative."""

    def __init__(self, **w):
        self.w = dict(
            insert=30, insert_multiple=8, update=12, update_all=4, remove=12,
            remove_all=2, drop_measurement=3, reindex=5, reopen=4,
        )
        self.w.update(w)
        self.handle_share = 0.25  # share of ops issued through a Measurement handle
        self.query_opts = {}
        self.meas = list(gen.MEAS)
        self.n_random_probes = 6
        self.time_probes = True
        self.getter_probes = False
        self.query_probes = True
        self.extra_meas = []
        self.extra_tag_vals = []
        self.extra_tag_keys = []
        self.extra_field_keys = []
        self.grid = None  # None = gen.GRID
        self.no_handle_peeks = False  # CSV: read the state from the file, probe only now and then
        self.allow_no_time = True
        self.failing_batches = True
        self.extra_field_vals = []
        self.wild = False
        self.min_ops, self.max_ops = 5, 25
        self.probe_every = 1  # probe after every n-th mutating op
        self.max_rows = MAX_ROWS
        self.max_time_probes = 10_000


def _pick(rng, weights):
    tot = sum(weights.values())
    r = rng.uniform(0, tot)
    for k, w in weights.items():
        r -= w
        if r <= 0:
            return k
    return k


def targeted_query(rng, model, opts, top=True):
    """A query with a decent chance of matching some-but-not-all points."""
    if top and model.points and rng.random() < 0.04:
        # a test function that answers with a truthy / falsy non-bool; only on its own or under ~ (see qast._t_as_is)
        p = rng.choice(model.points)
        if p.fields and rng.random() < 0.6:
            q = ("test", "fields", (rng.choice(sorted(p.fields)),), "as_is", ())
        elif p.tags:
            q = ("test", "tags", (rng.choice(sorted(p.tags)),), rng.choice(["as_is", "length"]), ())
        else:
            q = ("test", "measurement", (), "length", ())
        return ("not", q) if rng.random() < 0.3 else q
    if model.points and rng.random() < 0.5:
        p = rng.choice(model.points)
        c = rng.randrange(6)
        if c == 0:
            return ("cmp", "time", (), rng.choice(list(qast.OPS)), ("T", p.t, rng.choice(gen.OFFSETS)))
        if c == 1:
            return ("cmp", "measurement", (), rng.choice(["==", "!="]), p.m)
        if c == 2 and p.tags:
            k = rng.choice(sorted(p.tags))
            return ("cmp", "tags", (k,), rng.choice(["==", "!="]), p.tags[k])
        if c == 3 and p.fields:
            k = rng.choice(sorted(p.fields))
            v = p.fields[k]
            op = rng.choice(["==", "!="]) if v is None else rng.choice(list(qast.OPS))
            return ("cmp", "fields", (k,), op, v)
        if c == 4:
            a = targeted_query(rng, model, opts, top=False)
            b = gen.gen_query(rng, 1, opts)
            return (rng.choice(["and", "or"]), a, b)
        if c == 5:
            return ("not", targeted_query(rng, model, opts, top=False))
    return gen.gen_query(rng, rng.choice([0, 1, 2, 3]), opts)


def gen_write_op(rng, model, prof):
    w = dict(prof.w)
    n = len(model.points)
    if n >= prof.max_rows:
        w["insert"] = 0
        w["insert_multiple"] = 0
        if w.get("remove", 0) > 0:
            w["remove"] = w["remove"] + 30
    if n == 0:
        w["insert"] = w.get("insert", 0) + 60
    kind = _pick(rng, w)
    via_h = rng.random() < prof.handle_share
    names = prof.meas + prof.extra_meas
    m = rng.choice(names + ["absent"]) if via_h else None
    op = {"op": kind}
    if via_h and kind in ("insert", "insert_multiple", "update", "update_all", "remove", "remove_all"):
        op["via"] = "h"
        op["m"] = m
    if kind == "insert":
        op["p"] = gen.gen_point(rng, prof.meas, prof.allow_no_time, extra_meas=prof.extra_meas, extra_tag_vals=prof.extra_tag_vals, extra_tag_keys=prof.extra_tag_keys, extra_field_keys=prof.extra_field_keys, grid=prof.grid, extra_field_vals=prof.extra_field_vals)
        if not via_h and rng.random() < 0.15:
            op["m"] = rng.choice(names)
        if rng.random() < 0.3 and not via_h:
            op["compact"] = True
    elif kind == "insert_multiple":
        k = max(0, min(rng.choice([0, 1, 2, 3]), prof.max_rows - n))
        op["ps"] = [gen.gen_point(rng, prof.meas, prof.allow_no_time, extra_meas=prof.extra_meas, extra_tag_vals=prof.extra_tag_vals, extra_tag_keys=prof.extra_tag_keys, extra_field_keys=prof.extra_field_keys, grid=prof.grid, extra_field_vals=prof.extra_field_vals) for _ in range(k)]
        if not via_h and rng.random() < 0.15:
            op["m"] = rng.choice(names)
        if rng.random() < 0.3 and not via_h:
            op["compact"] = True
        op["ps_form"] = rng.choice(["list", "list", "tuple", "gen", "iter", "values", "gen_reading"])
        # (one Point object is never given twice: MemoryStorage keeps the caller's objects themselves, so a second
        # insert of the same object aliases two stored positions - the listed in-place-mutation finding, not generated)
        if prof.failing_batches and rng.random() < 0.12:
            # the batch fails part-way (histories include operations that raise): the points before the offending
            # element are stored, the call raises
            op["bad_at"] = rng.randint(0, len(op["ps"]))
            op["bad_kind"] = rng.choice(["nonpoint", "raise"])
    elif kind == "update":
        op["q"] = targeted_query(rng, model, prof.query_opts)
        op["args"] = gen.gen_update_args(rng)
        if not via_h and rng.random() < 0.15:
            op["m"] = rng.choice(names)
    elif kind == "update_all":
        op["args"] = gen.gen_update_args(rng)
    elif kind == "remove":
        op["q"] = targeted_query(rng, model, prof.query_opts)
        if not via_h and rng.random() < 0.2:
            op["m"] = rng.choice(names + ["absent"])
            if rng.random() < 0.3:
                op["m_form"] = "enum"
    elif kind == "drop_measurement":
        op["name"] = rng.choice(names + ["absent"])
        if rng.random() < 0.15:
            op["m_form"] = "enum"
    return op


def query_probes(rng, model, prof, via_choices=("db",)):
    """Read ops probing the current state through every query-taking read."""
    asts = []
    if prof.time_probes:
        tp = gen.time_probe_queries(model.points)
        # all six comparisons at every stored instant and its neighbours (sampled for big databases)
        if len(tp) > prof.max_time_probes:
            tp = rng.sample(tp, prof.max_time_probes)
        asts.extend(tp)
    for _ in range(prof.n_random_probes):
        asts.append(targeted_query(rng, model, prof.query_opts))
    names = prof.meas + prof.extra_meas + ["absent"]
    ops = []
    for q in asts:
        kinds = ["count", "search", "contains", "get", "select"]
        # each probe goes through two of the five reads (all five for random ASTs)
        chosen = kinds if q[0] != "cmp" or q[1] != "time" or q[2] else rng.sample(kinds, 2)
        for kind in chosen:
            op = {"op": kind, "q": q}
            r = rng.random()
            if r < 0.2:
                op["via"] = "h"
                op["m"] = rng.choice(names)
            elif r < 0.4:
                op["m"] = rng.choice(names)
                if rng.random() < 0.15:
                    op["m_form"] = "enum"
            if kind == "search":
                op["sorted"] = rng.random() < 0.5
            if kind == "select":
                op["keys_form"] = rng.choice(["tuple", "list", "gen", "keysview"])
                op["keys"] = rng.choice([
                    ["time", "time"], ["tags.k", "fields.x", "tags.k"], ["tags.a b", "fields.x.y"],
                    "time", "measurement", "tags.k", "fields.x", ["time", "tags.j"],
                    ["measurement", "fields.y", "tags.nokey"], ["fields.x"],
                ])
                if model.points and rng.random() < 0.4:
                    # keys that really occur in the stored points, whatever they look like (dots, blanks, ...)
                    mp = rng.choice(model.points)
                    # (select() rejects a bare "tags." / "fields." by design: the empty key cannot be selected)
                    own = [f"tags.{k}" for k in mp.tags if k != ""] + [f"fields.{k}" for k in mp.fields if k != ""]
                    if own:
                        ks = rng.sample(own, min(len(own), rng.choice([1, 2])))
                        op["keys"] = ks[0] if len(ks) == 1 and rng.random() < 0.5 else ks
            ops.append(op)
    return ops


def getter_probes(rng, model, prof):
    names = prof.meas + prof.extra_meas + ["absent"]
    ops = []
    for m, via in [(None, "db")] + [(n, rng.choice(["db", "h"])) for n in rng.sample(names, min(3, len(names)))]:
        base = {} if m is None else ({"via": "h", "m": m} if via == "h" else {"m": m})
        ops.append(dict(base, op="get_tag_keys"))
        ops.append(dict(base, op="get_field_keys"))
        ops.append(dict(base, op="get_timestamps"))
        ops.append(dict(base, op="get_field_values", key=rng.choice(gen.FIELD_KEYS + ["nokey"])))
        ops.append(dict(base, op="get_tag_values", keys=rng.choice([[], [], ["k"], ["k", "nokey"], ["j", "t"], ["k", "k"]]),
                        keys_form=rng.choice(["list", "list", "tuple", "gen"])))
        if via == "h" or m is None:
            ops.append(dict({k: v for k, v in base.items()}, op="len"))
            ops.append(dict(base, op="iter", iter_form=rng.choice([None, None, "abandoned-first"])))
            ops.append(dict(base, op="all", sorted=rng.random() < 0.5))
    ops.append({"op": "get_measurements"})
    return ops


class HistoryRunner:
    """Runs one history; the check supplies judge callbacks.

    judge(kind, session, out, ctx) -> None ; kind in write|read|state
    """

    def __init__(self, res, cfg, scratch, rng, prof, judge):
        self.res = res
        self.cfg = cfg
        self.scratch = scratch
        self.rng = rng
        self.prof = prof
        self.judge = judge
        self.no_handle_peeks = bool(prof is not None and getattr(prof, "no_handle_peeks", False))

    def run(self):
        res, rng, prof = self.res, self.rng, self.prof
        s = Session(self.cfg, self.scratch)
        self.judge("begin", s, None, {})
        try:
            n_ops = rng.randint(prof.min_ops, prof.max_ops)
            # seed rows
            n_seed = rng.randint(0, 5) if prof.max_rows <= MAX_ROWS else rng.randint(prof.max_rows // 2, prof.max_rows - 5)
            seq = 0
            huge = n_seed > 60
            while n_seed > 60:
                # big databases are seeded in batches (also exercises insert_multiple with many points)
                k = rng.choice([37, 64, 129]) if prof.max_rows <= 1000 else rng.choice([129, 500, 1000, 1024])
                ps = [gen.gen_point(rng, prof.meas, False, extra_meas=prof.extra_meas, extra_tag_vals=prof.extra_tag_vals, extra_tag_keys=prof.extra_tag_keys, extra_field_keys=prof.extra_field_keys, grid=prof.grid, extra_field_vals=prof.extra_field_vals) for _ in range(k)]
                for sp in ps:
                    sp["fields"]["seq"] = seq  # a unique sequence number: lets a removal leave exactly N survivors
                    seq += 1
                self._write(s, {"op": "insert_multiple", "ps": ps})
                n_seed -= k
            if huge and prof.w.get("remove", 0) > 0:
                # removals that leave exactly 2**k - 1, 2**k, 2**k + 1 survivors (batch / chunk size boundaries)
                for n_keep in sorted(rng.sample([c for c in (2049, 2048, 2047, 1025, 1024, 1023, 1001, 1000, 999, 513, 512, 511, 257, 256, 255, 129, 128, 127, 101, 100, 99, 65, 64, 63, 33, 32, 31, 17, 16, 15) if c < seq], 3), reverse=True):
                    self._write(s, {"op": "remove", "q": ("cmp", "fields", ("seq",), ">=", n_keep)})
                    res.count("trim_to_exact_size")
                    self._probe(s)
            for _ in range(max(0, n_seed)):
                op = {"op": "insert", "p": gen.gen_point(rng, prof.meas, False, extra_meas=prof.extra_meas, extra_tag_vals=prof.extra_tag_vals, extra_tag_keys=prof.extra_tag_keys, extra_field_keys=prof.extra_field_keys, grid=prof.grid, extra_field_vals=prof.extra_field_vals)}
                self._write(s, op)
            for step in range(n_ops):
                op = gen_write_op(rng, s.model, prof)
                ok = self._write(s, op)
                if not ok:
                    res.count("history_abandoned")
                    break
                if prof.no_handle_peeks and rng.random() < 0.6:
                    res.count("writes_directly_after_writes")
                    continue
                if step % prof.probe_every == 0:
                    self._probe(s)
            res.count("histories")
            if prof.max_rows > MAX_ROWS:
                res.count("histories_big")
            if prof.max_rows > 100:
                res.count("histories_huge")
            if len(prof.meas) > 8:
                res.count("histories_wide")
            return s
        finally:
            s.close()
            if s.path:
                self.scratch.drop_db_dir(s.path)

    def _write(self, s, op):
        pre = s.model.copy()
        pre_real = None
        out = s.do(op)
        self.res.evaluations += 1
        self.res.count(f"op.{op['op']}")
        ctx = {"pre": pre}
        self.judge("write", s, out, ctx)
        # state agreement after the write.  For a CSV database the state is read from the FILE by an independent
        # reader when possible (flush_on_insert=True): a peek through the database's own handle moves its cursor and
        # flushes its buffer, which would hide what a stale cursor / an unflushed buffer does to the next call.
        if s.path and not s.cfg.get("flush", True) and self.no_handle_peeks:
            # buffered inserts: the file does not hold the state yet and a peek through the handle would flush the
            # buffer - leave the state to the reads that follow (the first of them meets the unflushed buffer)
            self.res.count("state_check_left_to_reads_buffered_handle")
            return True
        try:
            if s.path and s.cfg.get("flush", True) and not s.cfg.get("encoding") and not s.cfg.get("csv") and self.no_handle_peeks:
                from . import csvcodec

                post = [p.canon() for p in csvcodec.decode_file(s.path, None, {})]
                self.res.count("state_read_from_file_not_handle")
            else:
                post = s.contents()
        except Exception as e:
            ctx["state_error"] = e
            self.judge("state", s, out, ctx)
            return False
        want = [p.canon() for p in s.model.points]
        if post != want:
            ctx["post_real"] = post
            ctx["post_model"] = want
            self.judge("state", s, out, ctx)
            # resynchronise the model with what is really stored, or give up
            if any(isinstance(c, tuple) and c and c[0] == "BAD" for c in post):
                return False
            s.model.points = [MPoint(c[0], c[1], dict(c[2]), dict(c[3])) for c in post]
            self.res.count("model_resynced")
        return True

    def _probe(self, s):
        rng, prof = self.rng, self.prof
        ops = []
        if prof.query_probes:
            ops += query_probes(rng, s.model, prof)
        if prof.getter_probes:
            ops += getter_probes(rng, s.model, prof)
        if self.no_handle_peeks:
            rng.shuffle(ops)  # any kind of read may be the first one after a write
            if rng.random() < 0.5:
                # ... and often it is one that is answered from storage metadata rather than by reading rows
                first = [i for i, o in enumerate(ops) if o["op"] in ("len", "get_measurements", "get_timestamps", "iter", "all")]
                if first:
                    ops.insert(0, ops.pop(rng.choice(first)))
        for op in ops:
            out = s.do(op)
            self.res.evaluations += 1
            self.judge("read", s, out, {})


def describe(s, out):
    return {
        "config": cfg_name(s.cfg),
        "op": out.op if "q" not in out.op else dict(out.op, q=qast.show(qast.tupled(out.op["q"]))),
        "expected": repr(out.exp)[:500],
        "observed": repr(out.real)[:500],
        "exception": None if out.exc is None else f"{type(out.exc).__name__}: {out.exc}"[:300],
        "index_valid_at_call": out.pre_valid,
        "rows": len(s.model.points),
    }


def replay_of(s):
    return {"cfg": s.cfg, "ops": list(s.log)}


def replay_ops(res, cfg, ops, scratch, judge, runner_cls=None):
    """Re-execute a logged op list with the same judge and resync logic."""
    from .session import READ_OPS

    runner = (runner_cls or HistoryRunner)(res, cfg, scratch, None, None, judge)
    s = Session(cfg, scratch)
    judge("begin", s, None, {})
    try:
        for op in ops:
            op = dict(op)
            if op.get("q") is not None:
                op["q"] = qast.tupled(op["q"])
            if "p" in op:
                op["p"] = _retuple_point(op["p"])
            if "ps" in op:
                op["ps"] = [_retuple_point(p) for p in op["ps"]]
            if "args" in op and op["args"].get("time") and "static" in op["args"]["time"]:
                op["args"] = dict(op["args"])
                op["args"]["time"] = {"static": tuple(op["args"]["time"]["static"])}
            if op["op"] in READ_OPS:
                out = s.do(op)
                judge("read", s, out, {})
            else:
                if not runner._write(s, op):
                    break
    finally:
        s.close()
        if s.path:
            scratch.drop_db_dir(s.path)


def _retuple_point(p):
    p = dict(p)
    if p.get("t") is not None:
        p["t"] = tuple(p["t"])
    return p
