"""In-situ contracts on real tinyflux functions (icontract, with a shim fallback).

install() wraps
  * tinyflux.utils.find_eq/lt/le/gt/ge  (and the names imported into
    tinyflux.index, otherwise `from .utils import ...` would bypass them)
    with the linear-scan postcondition (C18);
  * CompoundQuery.__call__ with "result == operator(sub-results)" (C09).

Every contract counts its evaluations; violations are *recorded* (and raised
as ContractBroken so that the surrounding monitor sees the call fail).
"""
import operator
import os
import subprocess
import sys

from . import VERIF

COUNTS = {}
BROKEN = []  # (name, args digest)
ENGINE = None
_installed = False


class ContractBroken(AssertionError):
    pass


def ensure_icontract():
    """Import icontract, installing it offline into .deps when needed."""
    global ENGINE
    deps = os.path.join(VERIF, ".deps")
    if deps not in sys.path:
        sys.path.append(deps)
    try:
        import icontract  # noqa: F401

        ENGINE = "icontract " + getattr(icontract, "__version__", "?")
        return True
    except Exception:
        pass
    try:
        subprocess.run(
            [sys.executable, "-m", "pip", "install", "--no-index", "--find-links",
             "/opt/veriftools/wheels", "--target", deps, "icontract"],
            stdout=subprocess.DEVNULL, stderr=subprocess.DEVNULL, timeout=120, check=True,
        )
        import importlib

        importlib.invalidate_caches()
        import icontract  # noqa: F401

        ENGINE = "icontract " + getattr(icontract, "__version__", "?")
        return True
    except Exception:
        ENGINE = "shim"
        return False


# -- linear-scan definitions (the oracle of C18) -------------------------------


def ref_find(name, lst, x):
    n = len(lst)
    if name == "find_eq":
        for i in range(n):
            if lst[i] == x:
                return i
        return None
    if name == "find_lt":
        r = None
        for i in range(n):
            if lst[i] < x:
                r = i
        return r
    if name == "find_le":
        r = None
        for i in range(n):
            if lst[i] <= x:
                r = i
        return r
    if name == "find_gt":
        for i in range(n):
            if lst[i] > x:
                return i
        return None
    if name == "find_ge":
        for i in range(n):
            if lst[i] >= x:
                return i
        return None
    raise ValueError(name)


def _mk_post(name):
    def post(sorted_list, x, result):
        COUNTS[name] = COUNTS.get(name, 0) + 1
        ok = result == ref_find(name, sorted_list, x) and (result is None or type(result) is int)
        if not ok:
            BROKEN.append((name, list(sorted_list)[:12], x, result))
        return ok

    post.__name__ = f"{name}_matches_linear_scan"
    return post


def _wrap_find(name, fn):
    post = _mk_post(name)
    if ENGINE and ENGINE.startswith("icontract"):
        import icontract

        return icontract.ensure(post, error=ContractBroken)(fn)

    def shim(sorted_list, x):
        result = fn(sorted_list, x)
        if not post(sorted_list, x, result):
            raise ContractBroken(f"{name} postcondition")
        return result

    shim.__wrapped__ = fn
    return shim


COMPOUND_CHECK = [True]


def install(compound=False):
    global _installed
    if _installed:
        return ENGINE
    ensure_icontract()
    import tinyflux.index as tindex
    import tinyflux.queries as tq
    import tinyflux.utils as tutils

    for name in ("find_eq", "find_lt", "find_le", "find_gt", "find_ge"):
        orig = getattr(tutils, name)
        wrapped = _wrap_find(name, orig)
        setattr(tutils, name, wrapped)
        if getattr(tindex, name, None) is orig:
            setattr(tindex, name, wrapped)

    # CompoundQuery.__call__: result is the operator applied to sub-results.
    orig_call = tq.CompoundQuery.__call__

    def compound_call(self, point):
        result = orig_call(self, point)
        if not COMPOUND_CHECK[0]:
            return result  # switched off for very deep queries: the re-evaluation below doubles the work per level
        COUNTS["compound_call"] = COUNTS.get("compound_call", 0) + 1
        try:
            a = self.query1(point)
            if self.operator is operator.not_:
                want = not a
            elif self.operator is operator.and_:
                want = bool(a) and bool(self.query2(point))
            elif self.operator is operator.or_:
                want = bool(a) or bool(self.query2(point))
            else:
                want = None
        except Exception:
            want = None
        if want is not None and bool(result) != want:
            BROKEN.append(("compound_call", repr(self), repr(point), result))
        return result

    if compound:
        tq.CompoundQuery.__call__ = compound_call
    _installed = True
    return ENGINE


def drain(res, prop=None):
    """Copy counters into a Result; return and clear the broken list."""
    for k, v in COUNTS.items():
        res.counters[f"contract_evals.{k}"] = v
    res.counters["contract_engine"] = ENGINE or "off"
    out = list(BROKEN)
    del BROKEN[:]
    return out
