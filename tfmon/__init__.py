"""tfmon - runtime monitors for tinyflux (see /verif/DESIGN.md)."""
import os
import sys

REPO = os.environ.get("TFMON_REPO", "/repo")
VERIF = os.path.dirname(os.path.dirname(os.path.abspath(__file__)))

# Always exercise the working tree named by TFMON_REPO (default /repo).
if REPO not in sys.path:
    sys.path.insert(0, REPO)
_deps = os.path.join(VERIF, ".deps")
if os.path.isdir(_deps) and _deps not in sys.path:
    sys.path.append(_deps)
