"""I/O boundary proxies: run-time rebinding of open / NamedTemporaryFile / shutil / os
inside the module object tinyflux.storages (restored afterwards).

Every call the storage layer makes on a file becomes an event

    Event(k, kind, target, info)

kind   in open, write, flush, fsync, truncate, seek, tell, read, iter, close,
          tmp_create, copy, copy_open, copy_mid, copy_done, unlink, replace, rename
target in primary, temp, other

A `monitor` object receives before(ev) / after(ev); before() may raise to inject a
fault *instead of* the call, after() may raise to inject a fault *after* the
call took effect.  `kernel_bytes(path)` reads a path through a separate
os.open/os.read, i.e. returns what the kernel holds - what would survive the
death of this process (user-space buffers of the TextIOWrapper are invisible to
it, as they would be lost).
"""
import builtins
import os as _os
import shutil as _shutil
import tempfile as _tempfile


def kernel_bytes(path):
    try:
        fd = _os.open(path, _os.O_RDONLY)
    except FileNotFoundError:
        return None
    try:
        chunks = []
        while True:
            b = _os.read(fd, 1 << 20)
            if not b:
                break
            chunks.append(b)
        return b"".join(chunks)
    finally:
        _os.close(fd)


class Event:
    __slots__ = ("k", "kind", "target", "info")

    def __init__(self, k, kind, target, info=None):
        self.k = k
        self.kind = kind
        self.target = target
        self.info = info

    def sig(self):
        return f"{self.target}.{self.kind}"

    def __repr__(self):
        return f"#{self.k}:{self.target}.{self.kind}{'' if self.info is None else ':' + str(self.info)[:40]}"


class NullMonitor:
    def before(self, ev):
        pass

    def after(self, ev):
        pass


class Recorder(NullMonitor):
    def __init__(self):
        self.events = []

    def before(self, ev):
        self.events.append(ev)

    def sigs(self):
        return [e.sig() for e in self.events]


class IOHub:
    """Owns the event counter, the current monitor and path classification."""

    def __init__(self):
        self.monitor = NullMonitor()
        self.k = 0
        self.primary = None
        self.temp_names = set()
        self.fd_target = {}
        self.enabled = True

    def classify(self, path):
        if isinstance(path, int):
            # open(fd, ...): the descriptor's file (e.g. one made by tempfile.mkstemp)
            try:
                path = _os.readlink(f"/proc/self/fd/{path}")
            except OSError:
                return "other"
        try:
            p = _os.fspath(path)
        except TypeError:
            return "other"
        if isinstance(p, bytes):
            p = _os.fsdecode(p)
        if self.primary is not None and _os.path.abspath(p) == _os.path.abspath(self.primary):
            return "primary"
        if p in self.temp_names:
            return "temp"
        if self.primary is not None and _os.path.dirname(_os.path.abspath(p)) == _os.path.dirname(_os.path.abspath(self.primary)):
            # any other file next to the database is auxiliary storage of the operation, however it was created
            self.temp_names.add(p)
            return "temp"
        return "other"

    def emit(self, kind, target, info, call):
        """Run `call` as event; monitor may inject before or after."""
        if not self.enabled:
            return call()
        ev = Event(self.k, kind, target, info)
        self.k += 1
        self.monitor.before(ev)
        r = call()
        self.monitor.after(ev)
        return r

    def point(self, kind, target, info=None):
        """A pure boundary marker (no call attached)."""
        if not self.enabled:
            return
        ev = Event(self.k, kind, target, info)
        self.k += 1
        self.monitor.before(ev)
        self.monitor.after(ev)


class FileProxy:
    def __init__(self, hub, f, target):
        self._hub = hub
        self._f = f
        self._target = target

    # -- calls that matter -----------------------------------------------------
    def write(self, s):
        return self._hub.emit("write", self._target, len(s), lambda: self._f.write(s))

    def flush(self):
        return self._hub.emit("flush", self._target, None, self._f.flush)

    def truncate(self, *a):
        return self._hub.emit("truncate", self._target, a[0] if a else None, lambda: self._f.truncate(*a))

    def seek(self, *a):
        return self._hub.emit("seek", self._target, a, lambda: self._f.seek(*a))

    def tell(self):
        return self._hub.emit("tell", self._target, None, self._f.tell)

    def read(self, *a):
        return self._hub.emit("read", self._target, None, lambda: self._f.read(*a))

    def readline(self, *a):
        return self._hub.emit("read", self._target, None, lambda: self._f.readline(*a))

    def close(self):
        if getattr(self._f, "closed", False):
            return self._f.close()  # closing a closed file reaches no operating system: not an I/O call
        return self._hub.emit("close", self._target, None, self._f.close)

    def __iter__(self):
        return self

    def __next__(self):
        hub = self._hub
        if not hub.enabled:
            return next(self._f)
        ev = Event(hub.k, "iter", self._target, None)
        hub.k += 1
        hub.monitor.before(ev)
        try:
            line = next(self._f)
        finally:
            pass
        hub.monitor.after(ev)
        return line

    def fileno(self):
        fd = self._f.fileno()
        self._hub.fd_target[fd] = self._target
        return fd

    def __enter__(self):
        return self

    def __exit__(self, *a):
        self.close()
        return False

    def __getattr__(self, name):
        return getattr(self._f, name)


def _attributes(obj):
    """(name, value) of every instance attribute, whether it lives in __dict__ or in __slots__."""
    out = {}
    d = getattr(obj, "__dict__", None)
    if isinstance(d, dict):
        out.update(d)
    for klass in type(obj).__mro__:
        slots = getattr(klass, "__slots__", ())
        if isinstance(slots, str):
            slots = (slots,)
        for n in slots:
            if n in ("__dict__", "__weakref__") or n in out:
                continue
            try:
                out[n] = getattr(obj, n)
            except AttributeError:
                pass
    return out


def wrap_open_handles(hub, storage):
    """The file objects an already open storage holds predate the proxies: rewrap them.  They are found by what they
    are (open file objects among the storage's attributes), not by attribute name.  Returns an undo list."""
    import io

    undo = []
    attrs = _attributes(storage)
    for name, val in attrs.items():
        if isinstance(val, FileProxy):
            continue
        if isinstance(val, io.IOBase) and not val.closed:
            target = hub.classify(getattr(val, "name", None)) if getattr(val, "name", None) is not None else "other"
            if target == "other":
                continue
            setattr(storage, name, FileProxy(hub, val, target))
            undo.append(name)
    return undo


def unwrap_handles(storage, undo=None):
    """Put the raw file objects back (whatever attribute they sit in now)."""
    for name, val in _attributes(storage).items():
        if isinstance(val, FileProxy):
            setattr(storage, name, val._f)


class _OsProxy:
    """Stands in for the `os` module inside tinyflux.storages."""

    def __init__(self, hub):
        self._hub = hub

    def fsync(self, fd):
        target = self._hub.fd_target.get(fd) or self._hub.classify(fd)
        return self._hub.emit("fsync", target, None, lambda: _os.fsync(fd))

    def _fd_target(self, fd):
        t = self._hub.fd_target.get(fd)
        if t is None:
            t = self._hub.classify(fd)  # via /proc/self/fd
        return t

    def fdatasync(self, fd):
        return self._hub.emit("fsync", self._fd_target(fd), None, lambda: _os.fdatasync(fd))

    def write(self, fd, data):
        return self._hub.emit("write", self._fd_target(fd), len(data), lambda: _os.write(fd, data))

    def pwrite(self, fd, data, offset):
        return self._hub.emit("write", self._fd_target(fd), len(data), lambda: _os.pwrite(fd, data, offset))

    def writev(self, fd, buffers):
        return self._hub.emit("write", self._fd_target(fd), None, lambda: _os.writev(fd, buffers))

    def ftruncate(self, fd, length):
        return self._hub.emit("truncate", self._fd_target(fd), length, lambda: _os.ftruncate(fd, length))

    def truncate(self, path, length):
        t = self._fd_target(path) if isinstance(path, int) else self._hub.classify(path)
        return self._hub.emit("truncate", t, length, lambda: _os.truncate(path, length))

    def posix_fallocate(self, fd, offset, length):
        return self._hub.emit("truncate", self._fd_target(fd), ("fallocate", offset, length), lambda: _os.posix_fallocate(fd, offset, length))

    def fdopen(self, fd, *a, **kw):
        hub = self._hub
        target = hub.classify(fd)
        f = hub.emit("open", target, (a[0] if a else kw.get("mode", "r")), lambda: _os.fdopen(fd, *a, **kw))
        return FileProxy(hub, f, target)

    def unlink(self, path, *a, **kw):
        return self._hub.emit("unlink", self._hub.classify(path), None, lambda: _os.unlink(path, *a, **kw))

    remove = unlink

    def replace(self, src, dst, *a, **kw):
        hub = self._hub
        return hub.emit("replace", hub.classify(dst), hub.classify(src), lambda: _os.replace(src, dst, *a, **kw))

    def rename(self, src, dst, *a, **kw):
        hub = self._hub
        return hub.emit("rename", hub.classify(dst), hub.classify(src), lambda: _os.rename(src, dst, *a, **kw))

    def __getattr__(self, name):
        return getattr(_os, name)


class _ShutilProxy:
    def __init__(self, hub):
        self._hub = hub

    def _copy(self, real, src, dst, **kw):
        hub = self._hub
        target = hub.classify(dst)
        if target != "primary" or not hub.enabled:
            return real(src, dst, **kw)
        # composite step: destination opened with O_TRUNC (empty), first half written, complete
        data = kernel_bytes(src) or b""
        hub.point("copy", "primary", len(data))

        def stage(kind, content):
            def do():
                with builtins.open(dst, "wb") as f:
                    f.write(content)
            hub.emit(kind, "primary", len(content), do)

        stage("copy_open", b"")
        stage("copy_mid", data[: len(data) // 2])
        return hub.emit("copy_done", "primary", len(data), lambda: real(src, dst, **kw))

    def copy(self, src, dst, **kw):
        return self._copy(_shutil.copy, src, dst, **kw)

    def copyfile(self, src, dst, **kw):
        return self._copy(_shutil.copyfile, src, dst, **kw)

    def copy2(self, src, dst, **kw):
        return self._copy(_shutil.copy2, src, dst, **kw)

    def move(self, src, dst, **kw):
        """shutil.move for files: os.rename, and when that is refused a (non-atomic) copy + unlink."""
        hub = self._hub
        if not hub.enabled:
            return _shutil.move(src, dst, **kw)
        try:
            hub.emit("rename", hub.classify(dst), hub.classify(src), lambda: _os.rename(src, dst))
            return dst
        except OSError:
            self._copy(_shutil.copy2, src, dst)
            hub.emit("unlink", hub.classify(src), None, lambda: _os.unlink(src))
            return dst

    def __getattr__(self, name):
        return getattr(_shutil, name)


class Installed:
    """Context manager: install the proxies into tinyflux.storages."""

    def __init__(self, hub):
        self.hub = hub

    def __enter__(self):
        import tinyflux.storages as st

        hub = self.hub
        self._st = st
        self._saved = {k: st.__dict__.get(k, _MISSING) for k in ("open", "NamedTemporaryFile", "shutil", "os")}

        def p_open(path, *a, **kw):
            target = hub.classify(path)
            f = hub.emit("open", target, (a[0] if a else kw.get("mode", "r")), lambda: builtins.open(path, *a, **kw))
            return FileProxy(hub, f, target)

        def p_ntf(*a, **kw):
            def mk():
                return _tempfile.NamedTemporaryFile(*a, **kw)

            f = hub.emit("tmp_create", "temp", kw.get("dir"), mk)
            hub.temp_names.add(f.name)
            return FileProxy(hub, f, "temp")

        st.open = p_open
        st.NamedTemporaryFile = p_ntf
        st.shutil = _ShutilProxy(hub)
        st.os = _OsProxy(hub)
        return hub

    def __exit__(self, *a):
        for k, v in self._saved.items():
            if v is _MISSING:
                self._st.__dict__.pop(k, None)
            else:
                setattr(self._st, k, v)
        return False


_MISSING = object()
