"""Session: drives a real TinyFlux and the reference model side by side.

`Session.do(op)` executes one JSON-able op on the real database and on the
model and returns an Outcome holding both results in a comparable, normalised
form.  Checks decide what a difference means for *their* property.
"""
import copy
import os
from datetime import datetime, timezone

from . import qast
from .common import from_us, quiet_stdout, to_us
from .model import MPoint, Model, NotAPoint, from_real, real_updaters, time_is_utc, update_args_empty

READ_OPS = {
    "search", "count", "contains", "get", "select", "all", "len", "iter",
    "get_measurements", "get_tag_keys", "get_field_keys", "get_tag_values",
    "get_field_values", "get_timestamps",
}
QUERY_READS = {"search", "count", "contains", "get", "select"}
GETTERS = READ_OPS - QUERY_READS
WRITE_OPS = {
    "insert", "insert_multiple", "update", "update_all", "remove",
    "remove_all", "drop_measurement",
}


def default_config(storage="mem", auto_index=True, **kw):
    c = {"storage": storage, "auto_index": auto_index, "csv": {}, "flush": True, "encoding": None}
    c.update(kw)
    return c


def cfg_name(cfg):
    return f"{cfg['storage']}/{'ai' if cfg['auto_index'] else 'noai'}"


def real_time(tspec):
    """Real datetime for a time spec ("T",us,off) / ("N",y,mo,d,h,mi,s,us)."""
    if tspec is None:
        return None
    if tspec[0] == "T":
        return from_us(tspec[1], tspec[2])
    return datetime(*tspec[1:8])


_ENUMS = {}


def as_str_enum(value):
    """A member of a str-based Enum whose VALUE is `value` (it equals and hashes like the string) and whose member
    NAME is something else: a measurement name is the string, not an attribute of the object that carries it."""
    import enum

    if value not in _ENUMS:
        _ENUMS[value] = enum.Enum("MeasurementName", {"MEMBER_NAME": value}, type=str).MEMBER_NAME
    return _ENUMS[value]


_POINT_SUBCLASS = []


def real_point(spec):
    from tinyflux import Point

    if spec.get("subclass"):
        # an application's own subclass of Point (adds behaviour, no state): it is a Point in every respect
        if not _POINT_SUBCLASS:
            _POINT_SUBCLASS.append(type("AppPoint", (Point,), {"__slots__": (), "describe": lambda self: f"{self.measurement}@{self.time}"}))
        Point = _POINT_SUBCLASS[0]

    kw = {}
    if spec.get("t") is None and spec.get("bare"):
        # a point that really has no time until it is inserted: Point() without arguments, attributes assigned later
        # (Point(measurement=...) without time= is stamped at construction instead)
        p = Point()
        if spec.get("m") is not None:
            p.measurement = spec["m"]
        if spec.get("tags"):
            p.tags = dict(spec["tags"])
        if spec.get("fields"):
            p.fields = dict(spec["fields"])
        return p
    if spec.get("assign") and spec.get("t") is not None:
        # every attribute given by assignment after construction instead of through the constructor
        p = Point()
        p.time = real_time(spec["t"])
        if spec.get("m") is not None:
            p.measurement = spec["m"]
        if spec.get("tags"):
            p.tags = dict(spec["tags"])
        if spec.get("fields"):
            p.fields = dict(spec["fields"])
        return p
    if spec.get("t") is not None:
        kw["time"] = real_time(spec["t"])
    if spec.get("m") is not None:
        kw["measurement"] = spec["m"]
    if spec.get("tags"):
        kw["tags"] = dict(spec["tags"])
    if spec.get("fields"):
        kw["fields"] = dict(spec["fields"])
    return Point(**kw)


def model_point(spec, m_override=None, t_us=None):
    if spec.get("t") is not None:
        assert spec["t"][0] == "T"
        t = spec["t"][1]
    else:
        t = t_us
    m = spec.get("m")
    if m is None:
        m = "_default"
    if m_override:
        m = m_override
    return MPoint(t, m, dict(spec.get("tags") or {}), dict(spec.get("fields") or {}))


def norm_points(pts):
    """List of real points -> list of canonical tuples (or error markers)."""
    out = []
    for p in pts:
        try:
            out.append(from_real(p).canon())
        except NotAPoint as e:
            out.append(("BAD", str(e)))
    return out


def _mapping_form(d, form):
    """The same key/value pairs as another Mapping type (every Mapping is a documented TagSet / FieldSet)."""
    import collections
    import types

    if form == "ordered":
        return collections.OrderedDict(d)
    if form == "proxy":
        return types.MappingProxyType(dict(d))
    if form == "chainmap":
        return collections.ChainMap(dict(d))
    return dict(d)


def real_update_kwargs(args):
    rt, rm, rtags, rfields = real_updaters()
    kw = {}
    a = args.get("time")
    if a:
        kw["time"] = real_time(a["static"]) if "static" in a else rt[a["call"]]
    a = args.get("measurement")
    if a:
        kw["measurement"] = a["static"] if "static" in a else rm[a["call"]]
    a = args.get("tags")
    if a:
        kw["tags"] = _mapping_form(a["static"], args.get("mapping_form")) if "static" in a else rtags[a["call"]]
    a = args.get("fields")
    if a:
        kw["fields"] = _mapping_form(a["static"], args.get("mapping_form")) if "static" in a else rfields[a["call"]]
    for k in ("unset_tags", "unset_fields"):
        if args.get(k) is not None:
            v = copy.copy(args[k])
            form = args.get(k + "_form")
            if form == "tuple":
                v = tuple(v)
            elif form == "gen":
                v = (i for i in list(v))
            elif form == "keys":
                v = {i: None for i in v}.keys()
            kw[k] = v
    return kw


def _copyable(x):
    try:
        copy.deepcopy(x)
        return True
    except Exception:  # noqa: BLE001
        return False


class Outcome:
    __slots__ = ("op", "real", "exp", "exc", "exp_exc", "pre_valid", "post_valid", "extra")

    def __init__(self, op):
        self.op = op
        self.real = None
        self.exp = None
        self.exc = None  # exception instance raised by the real call
        self.exp_exc = None  # name of exception class the model expects
        self.pre_valid = None
        self.post_valid = None
        self.extra = {}

    def agrees(self):
        if self.exc is not None or self.exp_exc is not None:
            return self.exc is not None and self.exp_exc is not None and type(self.exc).__name__ in self.exp_exc
        return self.real == self.exp

    def brief(self):
        return {
            "op": self.op,
            "real": repr(self.real)[:600],
            "expected": repr(self.exp)[:600],
            "exc": None if self.exc is None else f"{type(self.exc).__name__}: {self.exc}"[:300],
            "expected_exc": self.exp_exc,
            "index_valid_before": self.pre_valid,
        }


class Session:
    def __init__(self, cfg, scratch, path=None):
        self.cfg = cfg
        self.scratch = scratch
        self.model = Model()
        self.log = []
        self.path = None
        self.non_utc = 0  # returned points whose time is not tz-UTC (C08 interest)
        self.sticky_handles = False
        self.handles = {}
        if cfg["storage"] == "csv":
            self.path = path or scratch.new_db_path()
        self.db = self._open()

    # -- lifecycle -----------------------------------------------------------
    def _open(self, access_mode=None):
        from tinyflux import TinyFlux
        from tinyflux.storages import MemoryStorage

        cfg = self.cfg
        if cfg["storage"] == "mem":
            return TinyFlux(storage=MemoryStorage, auto_index=cfg["auto_index"])
        kw = dict(cfg.get("csv") or {})
        if cfg.get("encoding") is not None:
            kw["encoding"] = cfg["encoding"]
        if not cfg.get("flush", True):
            kw["flush_on_insert"] = False
        elif cfg.get("flush_as_int"):
            kw["flush_on_insert"] = 1  # truthy, equal to True, not a bool
        if access_mode or cfg.get("access_mode"):
            kw["access_mode"] = access_mode or cfg["access_mode"]
        # the documented forms of the path argument, rotated by database directory number (deterministic per run)
        form = sum(ord(c) for c in os.path.basename(os.path.dirname(self.path))) % 4
        path = self.path
        if form == 2:
            import pathlib

            path = pathlib.Path(self.path)
        elif form == 3:
            kw["create_dirs"] = True
        if form == 0 and not cfg.get("flush_as_int"):
            # the storage class given explicitly - a subclass of CSVStorage, as applications (and the repository's own
            # test fixtures) define them; every option keeps its default
            from tinyflux.storages import CSVStorage

            kw["storage"] = type("AppCSVStorage", (CSVStorage,), {})
        elif form == 1:
            path = os.path.relpath(self.path)  # relative to the working directory (which no check changes)
        cls = TinyFlux
        if form == 2:
            # the database class an application derives to add its own helpers; nothing is overridden
            cls = type("AppTinyFlux", (TinyFlux,), {"app_helper": lambda self_: len(self_)})
        return cls(path, auto_index=cfg["auto_index"], **kw)

    def close(self):
        try:
            self.db.close()
        except Exception:
            pass

    def reopen(self):
        if self.cfg["storage"] != "csv":
            return
        self.db.close()
        # "w+" means "start empty": a later session on the same file opens it normally
        self.db = self._open("r+" if self.cfg.get("access_mode") == "w+" else None)

    def clone(self):
        """A twin with the same stored contents, index validity and model."""
        import shutil

        t = Session.__new__(Session)
        t.cfg = self.cfg
        t.scratch = self.scratch
        t.model = self.model.copy()
        t.log = list(self.log)
        t.non_utc = 0
        t.sticky_handles = False
        t.handles = {}
        t.path = None
        if self.cfg["storage"] == "mem":
            try:
                t.db = copy.deepcopy(self.db)
            except Exception:  # noqa: BLE001 - a database object need not be copyable (locks, weak references, ...)
                # same contents inserted into a fresh database, index validity aligned
                t.db = t._open()
                with quiet_stdout():
                    for p_ in iter(self.db):
                        t.db.insert(copy.deepcopy(p_) if _copyable(p_) else p_)
                    if self.valid() and not t.valid():
                        t.db.reindex()
                    elif not self.valid() and t.valid():
                        t.db.index.invalidate()
        else:
            t.path = self.scratch.new_db_path()
            try:
                from .ioproxy import _attributes

                for v_ in list(_attributes(self.db.storage).values()):
                    if hasattr(v_, "flush") and hasattr(v_, "closed") and not v_.closed:
                        v_.flush()
            except Exception:
                pass
            shutil.copyfile(self.path, t.path)
            with quiet_stdout():
                t.db = t._open("r+" if self.cfg.get("access_mode") == "w+" else None)
                if self.valid() and not t.valid():
                    t.db.reindex()
        return t

    def discard(self):
        self.close()
        if self.path:
            self.scratch.drop_db_dir(self.path)

    @classmethod
    def fresh_from_model(cls, cfg, scratch, model):
        """A history-free database holding the model's points (inserted in order)."""
        t = cls(cfg, scratch)
        for p in model.points:
            t.db.insert(p.to_real())
        t.model = model.copy()
        return t

    # -- state peeks (do not go through read_op, so no reindex is triggered) ---
    def contents(self):
        return norm_points(list(iter(self.db)))

    def file_bytes(self):
        if not self.path:
            return None
        with open(self.path, "rb") as f:
            return f.read()

    def valid(self):
        return bool(self.db.index.valid)

    # -- execution -----------------------------------------------------------
    def target(self, op):
        if op.get("via") == "h":
            if self.sticky_handles:
                # Keep using a handle obtained earlier, even after the database
                # dropped it from its own cache (drop_measurement / remove_all).
                h = self.handles.get(op["m"])
                if h is None or h._db is not self.db:
                    h = self.handles[op["m"]] = self.db.measurement(op["m"])
                return h
            return self.db.measurement(op["m"])
        return self.db

    def do(self, op):
        out = Outcome(op)
        out.pre_valid = self.valid()
        with quiet_stdout():
            try:
                self._do(op, out)
            except _RealRaised as e:
                out.exc = e.exc
        out.post_valid = self.valid()
        self.log.append(op)
        return out

    def do_in_with_block(self, op):
        """The operation issued inside `with db:` - an exception raised in the block must come out of the with
        statement (the database is closed on the way out)."""
        out = Outcome(op)
        out.pre_valid = self.valid()
        with quiet_stdout():
            try:
                with self.db:
                    self._do(op, out)
            except _RealRaised as e:
                out.exc = e.exc
        out.post_valid = None
        self.log.append(op)
        return out

    def raw_getter(self, op):
        """The raw container a getter returns (for monitors that check it is the caller's own copy)."""
        tgt = self.target(op)
        via_h = op.get("via") == "h"
        m = op.get("m") if not via_h else None
        k = op["op"]
        with quiet_stdout():
            if k == "get_measurements":
                return self.db.get_measurements()
            if k in ("get_tag_keys", "get_field_keys", "get_timestamps"):
                return getattr(tgt, k)() if via_h else getattr(tgt, k)(m or None)
            if k == "get_field_values":
                return tgt.get_field_values(op["key"]) if via_h else tgt.get_field_values(op["key"], m or None)
            if k == "get_tag_values":
                keys = list(op.get("keys") or [])
                return tgt.get_tag_values(keys) if via_h else tgt.get_tag_values(keys, m or None)
        return None

    def _call(self, fn, *a, **kw):
        # every third API call hands its positional arguments over by keyword (the documented parameter names)
        self._ncalls = getattr(self, "_ncalls", 0) + 1
        if a and self._ncalls % 3 == 0:
            try:
                import inspect

                params = list(inspect.signature(fn).parameters.values())
                if len(params) >= len(a) and all(p_.kind == p_.POSITIONAL_OR_KEYWORD for p_ in params[: len(a)]) and not any(p_.name in kw for p_ in params[: len(a)]):
                    kw = dict({p_.name: v for p_, v in zip(params, a)}, **kw)
                    a = ()
            except (TypeError, ValueError):
                pass
        try:
            return fn(*a, **kw)
        except Exception as e:  # noqa: BLE001 - everything the API raises is an observation
            raise _RealRaised(e)

    def _do(self, op, out):
        kind = op["op"]
        via_h = op.get("via") == "h"
        m = op.get("m")
        mfilter = m if m else None
        # what the real call is given as measurement filter: the name, or (reads and removals only) a member of a
        # str-based Enum that IS that name as a string while its member name differs
        rf = as_str_enum(mfilter) if (mfilter and op.get("m_form") == "enum" and not via_h) else mfilter
        mdl = self.model
        tgt = self.target(op)
        q_ast = op.get("q")
        q = qast.to_real(q_ast) if q_ast is not None else None

        if kind == "insert":
            t0 = to_us(datetime.now(timezone.utc))
            p = real_point(op["p"])
            kw = {}
            if op.get("compact"):
                kw["compact_key_prefixes"] = True
            if via_h:
                out.exp = 1
                mp_m = m
                out.real = self._call(tgt.insert, p)
            else:
                out.exp = 1
                mp_m = mfilter
                if mfilter:
                    kw["measurement"] = mfilter
                out.real = self._call(tgt.insert, p, **kw)
            t1 = to_us(datetime.now(timezone.utc))
            mdl.insert(self._model_point(op["p"], mp_m, p, t0, t1, out))
        elif kind == "insert_multiple":
            t0 = to_us(datetime.now(timezone.utc))
            ps = [real_point(s) for s in op["ps"]]
            if op.get("alias_last_to_first") and len(ps) > 1:
                # one Point object given twice in a batch (the last spec repeats the first): two stored points
                ps[-1] = ps[0]
            kw = {}
            if op.get("compact") and not via_h:  # handles offer no compact option
                kw["compact_key_prefixes"] = True
            if not via_h and mfilter:
                kw["measurement"] = mfilter
            out.exp = len(ps)
            arg = ps
            form = op.get("ps_form")
            if form == "tuple":
                arg = tuple(ps)
            elif form == "gen":
                arg = (p_ for p_ in ps)
            elif form == "iter":
                arg = iter(ps)
            elif form == "values":
                arg = {i: p_ for i, p_ in enumerate(ps)}.values()
            elif form == "gen_reading":
                # a lazily evaluated source that looks into the database between two points (a read may rebuild the
                # index in the middle of the batch)
                def reading(ps=ps, db=self.db):
                    from tinyflux import MeasurementQuery

                    for p_ in ps:
                        db.contains(MeasurementQuery() == "never-a-measurement")
                        yield p_

                arg = reading()
            bad_at = op.get("bad_at")
            if bad_at is not None:
                # a batch that fails part-way: a non-Point element / a source that raises after `bad_at` good points
                bad_at = min(bad_at, len(ps))
                if op.get("bad_kind") == "raise":
                    def source(ps=ps, k=bad_at):
                        yield from ps[:k]
                        raise RuntimeError("point source failed")

                    arg = source()
                    out.exp_exc = ("RuntimeError",)
                else:
                    seq = ps[:bad_at] + ["not a point"] + ps[bad_at:]
                    arg = tuple(seq) if form == "tuple" else iter(seq) if form in ("gen", "iter") else seq
                    out.exp_exc = ("TypeError",)
                out.exp = None
                try:
                    out.real = self._call(tgt.insert_multiple, arg, **kw)
                finally:
                    t1 = to_us(datetime.now(timezone.utc))
                    for s, p in list(zip(op["ps"], ps))[:bad_at]:
                        mdl.insert(self._model_point(s, m if via_h else mfilter, p, t0, t1, out))
                return
            out.real = self._call(tgt.insert_multiple, arg, **kw)
            t1 = to_us(datetime.now(timezone.utc))
            for s, p in zip(op["ps"], ps):
                mdl.insert(self._model_point(s, m if via_h else mfilter, p, t0, t1, out))
        elif kind in ("update", "update_all"):
            args = op["args"]
            kw = real_update_kwargs(args)
            if args.get("reentrant") and self.cfg["auto_index"] and callable(kw.get("fields")):
                # the fields callable looks into the database while the update runs (answers that a valid index gives
                # without touching storage): the update goes on as if it had not
                inner, db_ = kw["fields"], self.db

                def looking(f, inner=inner, db_=db_):
                    from tinyflux import MeasurementQuery

                    db_.count(MeasurementQuery() == "m0")
                    len(db_)
                    db_.get_measurements()
                    return inner(f)

                kw["fields"] = looking
            if update_args_empty(args):
                out.exp_exc = ("ValueError",)
            if kind == "update":
                if via_h:
                    fn, a = tgt.update, (q,)
                elif mfilter:
                    fn, a = tgt.update, (q,)
                    kw["_measurement"] = mfilter
                else:
                    fn, a = tgt.update, (q,)
            else:
                fn, a = tgt.update_all, ()
            sel_q = q_ast if kind == "update" else None
            sel_m = m if via_h else (mfilter if kind == "update" else None)
            in_place = self.cfg["storage"] == "mem"
            if out.exp_exc is None:
                out.exp = mdl.copy().update(sel_q, args, sel_m, in_place)
            out.real = self._call(fn, *a, **kw)
            if out.exp_exc is None:
                mdl.update(sel_q, args, sel_m, in_place)
        elif kind == "remove":
            sel_m = m if via_h else mfilter
            out.exp = mdl.copy().remove(q_ast, sel_m)
            if via_h:
                out.real = self._call(tgt.remove, q)
            elif mfilter:
                out.real = self._call(tgt.remove, q, rf)
            else:
                out.real = self._call(tgt.remove, q)
            mdl.remove(q_ast, sel_m)
        elif kind == "remove_all":
            if via_h:
                out.exp = mdl.copy().remove(None, m)
                out.real = self._call(tgt.remove_all)
                mdl.remove(None, m)
            else:
                out.exp = None
                out.real = self._call(tgt.remove_all)
                mdl.remove_all()
        elif kind == "drop_measurement":
            out.exp = mdl.copy().remove(None, op["name"])
            out.real = self._call(self.db.drop_measurement, as_str_enum(op["name"]) if op.get("m_form") == "enum" else op["name"])
            mdl.remove(None, op["name"])
        elif kind == "reindex":
            out.exp = None
            out.real = self._call(self.db.reindex)
        elif kind == "reopen":
            out.exp = out.real = None
            self.reopen()
        elif kind == "search":
            s = op.get("sorted", True)
            sel_m = m if via_h else mfilter
            out.exp = [p.canon() for p in mdl.search(q_ast, sel_m, s)]
            if via_h:
                r = self._call(tgt.search, q, sorted=s)
            else:
                r = self._call(tgt.search, q, rf, sorted=s)
            out.real = self._norm_pts(r)
        elif kind == "count":
            sel_m = m if via_h else mfilter
            out.exp = mdl.count(q_ast, sel_m)
            out.real = self._call(tgt.count, q) if via_h else self._call(tgt.count, q, rf)
        elif kind == "contains":
            sel_m = m if via_h else mfilter
            out.exp = mdl.contains(q_ast, sel_m)
            out.real = self._call(tgt.contains, q) if via_h else self._call(tgt.contains, q, rf)
        elif kind == "get":
            sel_m = m if via_h else mfilter
            g = mdl.get(q_ast, sel_m)
            out.exp = None if g is None else g.canon()
            r = self._call(tgt.get, q) if via_h else self._call(tgt.get, q, rf)
            out.real = None if r is None else self._norm_pts([r])[0]
        elif kind == "select":
            sel_m = m if via_h else mfilter
            keys = op["keys"]
            keys = keys if isinstance(keys, str) else tuple(keys)
            out.exp = mdl.select(keys, q_ast, sel_m)
            arg = keys
            kform = op.get("keys_form")
            if not isinstance(keys, str):
                if kform == "list":
                    arg = list(keys)
                elif kform == "gen":
                    arg = (k_ for k_ in keys)
                elif kform == "keysview":
                    arg = {k_: None for k_ in keys}.keys() if len(set(keys)) == len(keys) else list(keys)
            r = self._call(tgt.select, arg, q) if via_h else self._call(tgt.select, arg, q, rf)
            out.real = self._norm_select(r, keys)
        elif kind == "all":
            s = op.get("sorted", True)
            out.exp = [p.canon() for p in mdl.all(m if via_h else None, s)]
            out.real = self._norm_pts(self._call(tgt.all, sorted=s))
        elif kind == "len":
            out.exp = mdl.length(m if via_h else None)
            out.real = self._call(len, tgt)
        elif kind == "iter":
            out.exp = [p.canon() for p in mdl.all(m if via_h else None, False)]
            form = op.get("iter_form")
            if form == "abandoned-first":
                # an iteration that is given up after the first point, then a complete one: a new iteration starts over
                def run(tgt=tgt):
                    for _ in tgt:
                        break
                    return [p_ for p_ in tgt]

                out.real = self._norm_pts(self._call(run))
            else:
                out.real = self._norm_pts(self._call(list, tgt))
        elif kind == "get_measurements":
            out.exp = mdl.get_measurements()
            out.real = self._call(self.db.get_measurements)
        elif kind in ("get_tag_keys", "get_field_keys"):
            sel_m = m if via_h else mfilter
            out.exp = getattr(mdl, kind)(sel_m)
            out.real = self._call(getattr(tgt, kind)) if via_h else self._call(getattr(tgt, kind), rf)
        elif kind == "get_tag_values":
            sel_m = m if via_h else mfilter
            keys = list(op.get("keys") or [])
            out.exp = mdl.get_tag_values(keys, sel_m)
            if keys and op.get("keys_form") == "tuple":
                keys = tuple(keys)
            elif keys and op.get("keys_form") == "gen":
                keys = (k_ for k_ in list(keys))
            if via_h:
                out.real = self._call(tgt.get_tag_values, keys) if keys else self._call(tgt.get_tag_values)
            else:
                out.real = self._call(tgt.get_tag_values, keys, rf)
        elif kind == "get_field_values":
            sel_m = m if via_h else mfilter
            out.exp = mdl.get_field_values(op["key"], sel_m)
            if via_h:
                out.real = self._call(tgt.get_field_values, op["key"])
            else:
                out.real = self._call(tgt.get_field_values, op["key"], rf)
        elif kind == "get_timestamps":
            sel_m = m if via_h else mfilter
            out.exp = mdl.get_timestamps(sel_m)
            r = self._call(tgt.get_timestamps) if via_h else self._call(tgt.get_timestamps, rf)
            out.real = self._norm_times(r)
        else:
            raise ValueError(kind)

    # -- normalisation -------------------------------------------------------
    def _norm_pts(self, pts):
        if not isinstance(pts, list):
            return ("NOT-A-LIST", repr(pts)[:100])
        for p in pts:
            try:
                if not time_is_utc(p):
                    self.non_utc += 1
            except Exception:
                pass
        return norm_points(pts)

    def _norm_times(self, ts):
        out = []
        for t in ts:
            try:
                if not (t.tzinfo is timezone.utc):
                    self.non_utc += 1
                out.append(to_us(t))
            except Exception as e:
                out.append(("BAD", repr(t), str(e)))
        return out

    def _norm_select(self, rows, keys):
        single = isinstance(keys, str) or len(keys) == 1
        out = []
        for r in rows:
            cells = [r] if single else list(r)
            n = []
            for c in cells:
                if isinstance(c, datetime):
                    try:
                        n.append(("T", to_us(c)))
                    except Exception:
                        n.append(("BAD", repr(c)))
                else:
                    n.append(c)
            out.append(n[0] if single else tuple(n))
        return out

    def _model_point(self, spec, m_override, real_p, t0, t1, out):
        """Model point for an inserted spec; adopts the stamped time if in window."""
        t_us = None
        if spec.get("t") is None:
            try:
                obs = to_us(real_p.time)
            except Exception:
                obs = None
            if obs is not None and t0 <= obs <= t1:
                t_us = obs
            else:
                out.extra["stamp_out_of_window"] = (t0, obs, t1)
                t_us = t0
        return model_point(spec, m_override, t_us)


class _RealRaised(Exception):
    def __init__(self, exc):
        self.exc = exc
