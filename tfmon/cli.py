"""check <Cxx> --tier quick|thorough [--replay file]

exit 0 held on everything explored / 1 VIOLATION / 2 INCONCLUSIVE.
"""
import argparse
import importlib
import json
import os
import sys
import time
import traceback


def main(argv=None):
    ap = argparse.ArgumentParser(prog="check")
    ap.add_argument("prop")
    ap.add_argument("--tier", default=os.environ.get("VERIF_TIER", "quick"), choices=["quick", "thorough"])
    ap.add_argument("--seed", type=int, default=None)
    ap.add_argument("--replay", default=None)
    ap.add_argument("--shard", type=int, default=0)
    ap.add_argument("--nshards", type=int, default=0)
    ap.add_argument("--worker-out", default=None)
    ap.add_argument("--no-shard", action="store_true")
    args = ap.parse_args(argv)

    # Deterministic process environment.
    os.environ.setdefault("TZ", "UTC")
    time.tzset()
    if args.seed is not None:
        os.environ["VERIF_SEED"] = str(args.seed)

    from . import common, core

    seed = common.seed()
    prop = args.prop.upper()
    mod = importlib.import_module(f"tfmon.checks.{prop.lower()}")

    if args.replay:
        with open(args.replay) as f:
            rep = json.load(f)
        res = core.Result(prop, args.tier, seed)
        rr = (rep.get("replay") or {}).get("_rerun") if isinstance(rep.get("replay"), dict) else None
        if getattr(mod, "REPLAY_BY_RERUN", False) and rr:
            # deterministic workloads: re-run the shard that produced the witness
            if rr.get("tz"):
                os.environ["TZ"] = rr["tz"]
                time.tzset()
            res = core.Result(prop, rr["tier"], rr["seed"])
            res.shard, res.nshards = rr["shard"], rr["nshards"]
            mod.run(res, rr["tier"], rr["seed"], rr["shard"], rr["nshards"])
        else:
            mod.replay(res, rep)
        for v in res.violations:
            print("REPRODUCED", json.dumps(v.to_json(), default=repr)[:3000])
        print("violations reproduced:", len(res.violations))
        return 1 if res.violations else 0

    if args.worker_out:
        # Workers alternate the process time zone (instants are zone independent, the code's
        # local-time conversions are not); C08 picks its own zones.
        if prop != "C08" and not os.environ.get("TFMON_FIXED_TZ"):
            zone = ["UTC", "America/Los_Angeles", "Australia/Lord_Howe", "Asia/Kathmandu"][args.shard % 4]
            os.environ["TZ"] = zone
            time.tzset()
        # Process-wide settings an application may have made, rotated over the workers: warnings raised as errors
        # (python -W error) and DEBUG logging switched on for every logger (records go to a null handler).
        settings = []
        if args.shard % 4 == 1:
            import warnings

            warnings.simplefilter("error")
            settings.append("warnings_as_errors")
        if args.shard % 4 == 2:
            import logging

            logging.getLogger().addHandler(logging.NullHandler())
            logging.getLogger().setLevel(logging.DEBUG)
            logging.getLogger("tinyflux").setLevel(logging.DEBUG)
            settings.append("debug_logging")
        res = core.Result(prop, args.tier, seed)
        res.shard, res.nshards = args.shard, args.nshards
        for st in settings:
            res.count(f"worker_setting.{st}")
        try:
            mod.run(res, args.tier, seed, args.shard, args.nshards)
        except Exception:  # harness failure is never a verdict
            res.inconclusive.append("worker crashed: " + traceback.format_exc()[-1500:])
        res.count(f"worker_tz.{os.environ.get('TZ')}")
        with open(args.worker_out, "w") as f:
            json.dump(res.dump(), f, default=repr)
        return 0

    # install icontract once, before workers start (concurrent installs into one directory would race)
    from . import contracts

    contracts.ensure_icontract()
    nshards = 1 if args.no_shard else getattr(mod, "SHARDS", {}).get(args.tier, 1)
    timeout = getattr(mod, "TIMEOUT", {}).get(args.tier, 900)
    if nshards > 1:
        res = core.run_sharded(prop, args.tier, seed, nshards, timeout)
    else:
        res = core.Result(prop, args.tier, seed)
        res.shard, res.nshards = 0, 1
        try:
            mod.run(res, args.tier, seed, 0, 1)
        except Exception:
            res.inconclusive.append("check crashed: " + traceback.format_exc()[-1500:])
    if hasattr(mod, "finalize"):
        mod.finalize(res, args.tier)
    return core.finish(res)


if __name__ == "__main__":
    sys.exit(main())
