"""Reference model: a shadow database with the documented semantics.

Points are MPoint(t, m, tags, fields); `t` is the instant as *integer
microseconds since the epoch* (never a float, never a local time).
"""
import copy
from datetime import datetime, timezone

from . import qast
from .common import from_us, to_us


class MPoint:
    __slots__ = ("t", "m", "tags", "fields")

    def __init__(self, t, m, tags, fields):
        self.t = t
        self.m = m
        self.tags = tags
        self.fields = fields

    def copy(self):
        return MPoint(self.t, self.m, dict(self.tags), dict(self.fields))

    def canon(self):
        return (
            self.t,
            self.m,
            tuple(sorted(self.tags.items(), key=lambda kv: kv[0])),
            tuple(sorted(self.fields.items(), key=lambda kv: kv[0])),
        )

    def __eq__(self, other):
        return isinstance(other, MPoint) and self.canon() == other.canon()

    def __hash__(self):
        return hash(self.canon())

    def __repr__(self):
        return f"MP(t={self.t}, m={self.m!r}, tags={self.tags}, fields={self.fields})"

    def to_json(self):
        return {"t": self.t, "m": self.m, "tags": self.tags, "fields": self.fields}

    def to_real(self):
        from tinyflux import Point

        if self.t is None:
            # a point that has not been given a time yet (it gets one on insert)
            p = Point()
            p.measurement = self.m
            p.tags = dict(self.tags)
            p.fields = dict(self.fields)
            return p
        return Point(
            time=from_us(self.t),
            measurement=self.m,
            tags=dict(self.tags),
            fields=dict(self.fields),
        )


class NotAPoint(Exception):
    """A real object that cannot be mapped to a model point (with reason)."""


def from_real(p):
    """Model point of a real tinyflux Point; raises NotAPoint with the reason."""
    from tinyflux import Point

    if not isinstance(p, Point):
        raise NotAPoint(f"not a Point: {p!r}")
    t = p.time
    if not isinstance(t, datetime):
        raise NotAPoint(f"time is not a datetime: {t!r}")
    if t.tzinfo is None or t.utcoffset() is None:
        raise NotAPoint(f"time is naive: {t!r}")
    if not isinstance(p.measurement, str):
        raise NotAPoint(f"measurement is not a str: {p.measurement!r}")
    if not isinstance(p.tags, dict) or not isinstance(p.fields, dict):
        raise NotAPoint("tags/fields not dicts")
    return MPoint(to_us(t), p.measurement, dict(p.tags), dict(p.fields))


def time_is_utc(p):
    """The documented shape of a returned time: aware, offset zero, tz UTC."""
    t = p.time
    return (
        isinstance(t, datetime)
        and t.tzinfo is not None
        and t.utcoffset() is not None
        and t.utcoffset().total_seconds() == 0
        and t.tzinfo is timezone.utc
    )


# ---------------------------------------------------------------------------
# Update semantics.

UPD_TIME = {
    "t_plus_1h": lambda t: t + 3_600_000_000,
    "t_minus_1d": lambda t: t - 86_400_000_000,
    "t_same": lambda t: t,
    "t_plus_1us": lambda t: t + 1,
    "t_other_zone": lambda t: t,  # same instant presented in +05:45
}
UPD_MEAS = {
    "m_upper": lambda m: m.upper(),
    "m_same": lambda m: m,
    "m_const_m1": lambda m: "m1",
    "m_suffix": lambda m: m + "x",
}
UPD_TAGS = {
    "tags_add_k": lambda tags: {**tags, "k": "z"},
    "tags_only_new": lambda tags: {"n": "1"},
    "tags_empty": lambda tags: {},
    "tags_same": lambda tags: dict(tags),
    "tags_none_j": lambda tags: {"j": None},
}
def _tags_inplace_add(tags):
    tags["k"] = "z"  # mutates the mapping it was given and returns the same object
    return tags


def _tags_inplace_pop(tags):
    tags.pop("k", None)  # merge semantics: a key missing from the result is NOT removed
    tags["n"] = "1"
    return tags


def _fields_inplace_set(f):
    f["n"] = 7
    return f


def _fields_inplace_clear(f):
    f.clear()  # returns the emptied mapping: nothing to merge, nothing changes
    return f


UPD_TAGS["tags_inplace_add"] = _tags_inplace_add
UPD_TAGS["tags_inplace_pop"] = _tags_inplace_pop

UPD_FIELDS = {
    "fields_inc_x": lambda f: (
        {**f, "x": f["x"] + 1}
        if isinstance(f.get("x"), (int, float))
        else dict(f)
    ),
    "fields_only_new": lambda f: {"n": 7},
    "fields_empty": lambda f: {},
    "fields_same": lambda f: dict(f),
    "fields_none_y": lambda f: {"y": None},
}


def _fields_nudge_x(f):
    """The smallest possible change of a numeric field: the next float up (an int becomes the float just above it)."""
    import math

    x = f.get("x")
    if isinstance(x, (int, float)) and not isinstance(x, bool) and abs(x) < 1e300:
        return {**f, "x": math.nextafter(float(x), math.inf)}
    return dict(f)


def _fields_scale_x(f):
    """A change far below any 'close enough' tolerance but well above one ulp (relative 1e-11)."""
    x = f.get("x")
    if isinstance(x, (int, float)) and not isinstance(x, bool) and 0 < abs(x) < 1e300:
        return {**f, "x": float(x) * (1 + 1e-11)}
    return dict(f)


UPD_FIELDS["fields_nudge_x"] = _fields_nudge_x
UPD_FIELDS["fields_scale_x"] = _fields_scale_x
UPD_FIELDS["fields_inplace_set"] = _fields_inplace_set
UPD_FIELDS["fields_inplace_clear"] = _fields_inplace_clear


def real_updaters():
    """The real-callable versions of the updater registry."""
    from datetime import timedelta

    tz545 = timezone(timedelta(hours=5, minutes=45))
    rt = {
        "t_plus_1h": lambda t: t + timedelta(hours=1),
        "t_minus_1d": lambda t: t - timedelta(days=1),
        "t_same": lambda t: t,
        "t_plus_1us": lambda t: t + timedelta(microseconds=1),
        "t_other_zone": lambda t: t.astimezone(tz545),
    }
    return rt, UPD_MEAS, UPD_TAGS, UPD_FIELDS


def norm_unset(u):
    if u is None:
        return []
    if isinstance(u, str):
        return [u]
    return list(u)


def apply_update(mp, args):
    """Return the updated copy of `mp` for model update args.

    args: dict with optional keys time/measurement/tags/fields each
    {"static": v} or {"call": id}; unset_tags/unset_fields: str or list.
    A static time is ("T", us, off).
    """
    new = mp.copy()
    a = args.get("time")
    if a:
        new.t = a["static"][1] if "static" in a else UPD_TIME[a["call"]](mp.t)
    a = args.get("measurement")
    if a:
        new.m = a["static"] if "static" in a else UPD_MEAS[a["call"]](mp.m)
    a = args.get("tags")
    if a:
        new.tags.update(a["static"] if "static" in a else UPD_TAGS[a["call"]](dict(mp.tags)))
    a = args.get("fields")
    if a:
        new.fields.update(
            a["static"] if "static" in a else UPD_FIELDS[a["call"]](dict(mp.fields))
        )
    for k in norm_unset(args.get("unset_tags")):
        new.tags.pop(k, None)
    for k in norm_unset(args.get("unset_fields")):
        new.fields.pop(k, None)
    return new


def update_args_empty(args):
    """True when the call names nothing to do (documented: ValueError)."""
    for k in ("time", "measurement", "tags", "fields"):
        a = args.get(k)
        if a and ("call" in a or a.get("static")):
            return False
    if args.get("unset_tags") or args.get("unset_fields"):
        return False
    return True


class Model:
    """Shadow database: list of MPoint in insertion order."""

    def __init__(self, points=None):
        self.points = [p.copy() for p in (points or [])]

    def copy(self):
        return Model(self.points)

    def digest(self):
        return tuple(p.canon() for p in self.points)

    # -- selection -----------------------------------------------------------
    def _sel(self, q, m=None):
        return [
            i
            for i, p in enumerate(self.points)
            if (m is None or p.m == m) and (q is None or qast.holds(q, p))
        ]

    # -- reads ---------------------------------------------------------------
    def search(self, q, m=None, sorted_=True):
        pts = [self.points[i] for i in self._sel(q, m)]
        if sorted_:
            pts = sorted(pts, key=lambda p: p.t)  # stable
        return pts

    def count(self, q, m=None):
        return len(self._sel(q, m))

    def contains(self, q, m=None):
        return bool(self._sel(q, m))

    def get(self, q, m=None):
        s = self._sel(q, m)
        return self.points[s[0]] if s else None

    def select(self, keys, q, m=None):
        single = isinstance(keys, str)
        ks = [keys] if single else list(keys)
        out = []
        for i in self._sel(q, m):
            p = self.points[i]
            row = []
            for k in ks:
                if k == "time":
                    row.append(("T", p.t))
                elif k == "measurement":
                    row.append(p.m)
                elif k.startswith("tags."):
                    row.append(p.tags.get(k[5:]))
                else:
                    row.append(p.fields.get(k[7:]))
            out.append(row[0] if len(ks) == 1 else tuple(row))
        return out

    def all(self, m=None, sorted_=True):
        return self.search(None, m, sorted_)

    def length(self, m=None):
        return len(self._sel(None, m))

    # -- getters -------------------------------------------------------------
    def get_measurements(self):
        return sorted({p.m for p in self.points})

    def get_tag_keys(self, m=None):
        return sorted({k for i in self._sel(None, m) for k in self.points[i].tags})

    def get_field_keys(self, m=None):
        return sorted({k for i in self._sel(None, m) for k in self.points[i].fields})

    def get_field_values(self, key, m=None):
        return [
            self.points[i].fields[key]
            for i in self._sel(None, m)
            if key in self.points[i].fields
        ]

    def get_tag_values(self, tag_keys=(), m=None):
        want = list(tag_keys)
        out = {k: set() for k in want}
        for i in self._sel(None, m):
            for k, v in self.points[i].tags.items():
                if want and k not in out:
                    continue
                out.setdefault(k, set()).add(v)
        return {k: sorted(v, key=lambda x: (x is None, x)) for k, v in out.items()}

    def get_timestamps(self, m=None):
        return [self.points[i].t for i in self._sel(None, m)]

    # -- writes --------------------------------------------------------------
    def insert(self, mp):
        self.points.append(mp.copy())

    def remove(self, q, m=None):
        s = set(self._sel(q, m))
        self.points = [p for i, p in enumerate(self.points) if i not in s]
        return len(s)

    def remove_all(self):
        self.points = []

    def update(self, q, args, m=None, in_place=False):
        """`in_place`: the storage keeps the caller-visible objects themselves and the update edits them before it
        knows whether anything changed (MemoryStorage): an update to an EQUAL value still leaves the new representation
        (0 -> -0.0) behind.  A CSV database rewrites nothing in that case and keeps the old representation."""
        changed = 0
        for i in self._sel(q, m):
            new = apply_update(self.points[i], args)
            if new != self.points[i]:
                changed += 1
                self.points[i] = new
            elif in_place:
                self.points[i] = new
            # else: an update that leaves an EQUAL point (e.g. 0 -> -0.0, 1 -> 1.0) changes nothing: the stored
            # representation stays what it was (only a sign- or type-sensitive predicate can tell the difference)
        return changed
