"""Known-finding signatures.

/verif/known_findings.json is the authority on which findings are *listed*
(status "known"); this module holds, per key, the structural predicate over a
violation's (kind, features) that recognises the mechanism.  Signatures never
mention seeds, hashes or concrete random values.  Entries with status "fixed"
suppress nothing.  The file is never written at run time.
"""
import json
import os

from . import VERIF

_PREDICATES = {}


def signature(key):
    def deco(fn):
        _PREDICATES[key] = fn
        return fn

    return deco


_cache = None


def listed():
    global _cache
    if _cache is None:
        path = os.path.join(VERIF, "known_findings.json")
        try:
            with open(path) as f:
                data = json.load(f)
        except FileNotFoundError:
            data = {"findings": []}
        _cache = [e for e in data.get("findings", []) if e.get("status") == "known"]
    return _cache


def classify(v):
    """(key, description) of the listed known finding matching `v`, else None."""
    for e in listed():
        if e["property"] != v.prop:
            continue
        pred = _PREDICATES.get(e["key"])
        if pred is None:
            continue
        try:
            if pred(v):
                return (e["key"], e.get("description", ""))
        except Exception:
            continue
    return None


# ---------------------------------------------------------------------------
# Signatures (each documented in DESIGN.md section 5 and known_findings.json).


@signature("codec-empty-measurement")
def _sig_empty_measurement(v):
    f = v.features
    return v.kind == "roundtrip-mismatch" and f.get("diff_slots") == ["measurement"] and f.get("orig_measurement") == ""


@signature("codec-none-token-tag-value")
def _sig_none_token(v):
    f = v.features
    return (
        v.kind in ("roundtrip-mismatch", "not-injective")
        and f.get("diff_slots") == ["tags"]
        and f.get("all_diff_tag_values_are_none_token") is True
    )


@signature("codec-int-beyond-2^53")
def _sig_big_int(v):
    f = v.features
    return (
        v.kind in ("roundtrip-mismatch", "not-injective")
        and f.get("diff_slots") == ["fields"]
        and f.get("all_diff_fields_are_big_ints") is True
    )


@signature("codec-int-overflows-float")
def _sig_huge_int(v):
    f = v.features
    return v.kind == "serialize-raises" and f.get("exc") == "OverflowError" and f.get("has_int_beyond_float") is True


@signature("mem-update-mutates-stored-points-before-swap")
def _sig_mem_inplace(v):
    f = v.features
    return (
        v.kind == "contents-changed-by-failed-call"
        and f.get("failing_op_is_update") is True
        and f.get("storage") == "mem"
        and f.get("explained_by_in_place_mutation") is True
    )
