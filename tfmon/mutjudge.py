"""Judge shared by C02 (removals) and C03 (updates).

For the mutation kinds M of the property it checks
  (1) the return value against the model,
  (2) the stored contents right after the call (survivors / updated points, order
      included) against the model,
  (3) every later read against the model, attributing a difference to M only if
      a history-free twin with the same contents answers correctly and nothing
      differed before the first M-operation of the history.
"""
from . import qast
from .core import Violation
from .histories import describe, replay_of
from .session import Session, cfg_name


def make_judge(res, prop, kinds, noun, returns_count=lambda op: True):
    st = {}

    def judge(kind, s, out, ctx):
        if kind == "begin":
            st.clear()
            st.update(n=0, dirty=False)
            return
        op = out.op
        cfg = cfg_name(s.cfg)
        mine = op["op"] in kinds
        if kind == "write" and mine:
            st["n"] += 1
            serving = "index" if (out.pre_valid or s.cfg["auto_index"]) else "scan"
            res.count(f"{noun}s.{op['op']}.{serving}.{cfg}")
            pre = ctx["pre"]
            n_pre = len(pre.points)
            if out.exp_exc is None:
                n_sel = len(pre._sel(op.get("q"), _sel_m(op)))
                res.count(f"{noun}.selects_none" if n_sel == 0 else (f"{noun}.selects_all" if n_sel == n_pre else f"{noun}.selects_some"))
                if isinstance(out.exp, int) and out.exp < n_sel:
                    res.count(f"{noun}.selected_but_unchanged")
            key = qast.shape(op["q"]) if op.get("q") is not None else op["op"]
            res.seen((pre.digest(), key, op.get("m", op.get("name")), serving, repr(sorted((op.get("args") or {}).items()))))
            if out.exp_exc is not None:
                res.count(f"{noun}.expected_error")
                if out.exc is None or type(out.exc).__name__ not in out.exp_exc:
                    res.violate(Violation(prop, f"{noun}-missing-error", describe(s, out), replay=replay_of(s), features={"cfg": cfg}))
            elif out.exc is not None:
                res.violate(Violation(prop, f"{noun}-raises", describe(s, out), replay=replay_of(s), features={"cfg": cfg, "exc": type(out.exc).__name__}))
            elif returns_count(op) and out.real != out.exp:
                res.violate(Violation(prop, f"{noun}-wrong-count", describe(s, out), replay=replay_of(s), features={"cfg": cfg, "serving": serving}))
            return
        if kind == "state":
            if mine:
                d = describe(s, out)
                d["contents_expected"] = repr(ctx.get("post_model"))[:700]
                d["contents_observed"] = repr(ctx.get("post_real", ctx.get("state_error")))[:700]
                res.violate(Violation(prop, f"{noun}-wrong-contents", d, replay=replay_of(s), features={"cfg": cfg}))
            else:
                res.count(f"state_divergence_not_by_{noun}")
                if not st["n"]:
                    st["dirty"] = True
            return
        if kind == "read":
            res.count("later_reads" if st["n"] else f"reads_before_first_{noun}")
            if out.agrees():
                return
            if not st["n"]:
                st["dirty"] = True
                res.count(f"read_mismatch_before_any_{noun}")
                return
            if st["dirty"]:
                res.count("read_mismatch_not_attributable")
                return
            twin = Session.fresh_from_model(s.cfg, s.scratch, s.model)
            try:
                if out.pre_valid and not twin.valid():
                    twin.db.reindex()
                tout = twin.do(op)
            finally:
                twin.discard()
            if tout.agrees():
                res.violate(Violation(prop, f"read-wrong-after-{noun}", describe(s, out), replay=replay_of(s), features={"cfg": cfg, "op": op["op"]}))
            else:
                res.count("read_mismatch_not_attributable")

    return judge


def _sel_m(op):
    if op.get("via") == "h":
        return op.get("m")
    if op["op"] in ("update_all", "remove_all"):
        return None
    if op["op"] == "drop_measurement":
        return op["name"]
    return op.get("m") or None
