"""Shared helpers: exact time arithmetic, scratch directories, seeded RNG."""
import contextlib
import io
import os
import random
import shutil
import sys
import tempfile
from datetime import datetime, timedelta, timezone

EPOCH = datetime(1970, 1, 1, tzinfo=timezone.utc)
US = timedelta(microseconds=1)


def to_us(dt):
    """Exact integer microseconds since the epoch of an *aware* datetime."""
    if dt.tzinfo is None or dt.utcoffset() is None:
        raise ValueError("naive datetime has no instant")
    return (dt - EPOCH) // US


def from_us(us, offset_min=0):
    """Aware datetime of the instant `us`, presented in a fixed UTC offset."""
    dt = EPOCH + timedelta(microseconds=us)
    if offset_min:
        dt = dt.astimezone(timezone(timedelta(minutes=offset_min)))
    return dt


def rng_for(*parts):
    return random.Random("/".join(str(p) for p in parts))


def seed():
    try:
        return int(os.environ.get("VERIF_SEED", "0"))
    except ValueError:
        return 0


class Scratch:
    """Private scratch directory (under /dev/shm when writable).

    tempfile.tempdir is pointed into it so that the NamedTemporaryFile made by
    tinyflux lands in a directory only this run uses.
    """

    def __init__(self, tag="tfmon"):
        base = None
        for cand in ("/dev/shm", os.environ.get("TMPDIR"), "/var/tmp", "/tmp"):
            if cand and os.path.isdir(cand) and os.access(cand, os.W_OK):
                base = cand
                break
        self.root = tempfile.mkdtemp(prefix=f"{tag}-{os.getpid()}-", dir=base)
        self.tmp = os.path.join(self.root, "tmp")
        self.db = os.path.join(self.root, "db")
        os.mkdir(self.tmp)
        os.mkdir(self.db)
        self._old_tempdir = tempfile.tempdir
        tempfile.tempdir = self.tmp
        self._n = 0

    # database file names (rotated): an ordinary one, one that looks like a tempfile name, one without extension, one
    # with a blank, one that looks like a backup / scratch file of another
    DB_NAMES = ["db.csv", "db.csv", "tmpa1b2c3d4", "db", "my data.csv", "db.csv.tmp", "db.csv", ".db.csv"]
    BYSTANDERS = {"tmpzzzzzzzz": b"not yours\n", "db.csv.bak": b"2020-01-01T00:00:00+00:00,old\r\n", "notes.txt": b"", ".db.csv.swp": b"\x00\x01"}

    def new_db_path(self, suffix=".csv"):
        self._n += 1
        d = os.path.join(self.db, f"d{self._n}")
        os.mkdir(d)
        name = self.DB_NAMES[self._n % len(self.DB_NAMES)] if suffix == ".csv" else "db" + suffix
        if self._n % 3 == 1:
            # other people's files next to the database: no operation may touch them
            for bn, content in self.BYSTANDERS.items():
                if bn != name:
                    with open(os.path.join(d, bn), "wb") as f:
                        f.write(content)
        return os.path.join(d, name)

    def drop_db_dir(self, path):
        shutil.rmtree(os.path.dirname(path), ignore_errors=True)

    def close(self):
        tempfile.tempdir = self._old_tempdir
        shutil.rmtree(self.root, ignore_errors=True)

    def __enter__(self):
        return self

    def __exit__(self, *a):
        self.close()


@contextlib.contextmanager
def quiet_stdout():
    """Capture anything the code under test prints (reindex() prints)."""
    old = sys.stdout
    buf = io.StringIO()
    sys.stdout = buf
    try:
        yield buf
    finally:
        sys.stdout = old
