"""Query AST with two independent interpreters.

An AST is a nested tuple (JSON friendly once lists are re-tupled):

  ("cmp",   attr, path, op, rhs)      attr in time|measurement|tags|fields
  ("exists", attr, key)               attr in tags|fields
  ("regex", attr, path, kind, pattern, flags)   kind in matches|search
  ("test",  attr, path, fn_id, args)
  ("noop",  attr)
  ("not", q) ("and", a, b) ("or", a, b)

path  = tuple of parts, a part is a key string or ("map", fn_id)
rhs   = ("T", us, offset_minutes) for time, else a plain str/number/None

`to_real(ast)` builds the genuine tinyflux query through the public DSL.
`holds(ast, mpoint)` evaluates the *documented* meaning on model data without
calling any tinyflux code.
"""
import operator
import re

from .common import from_us

OPS = {
    "==": operator.eq,
    "!=": operator.ne,
    "<": operator.lt,
    "<=": operator.le,
    ">": operator.gt,
    ">=": operator.ge,
}

# ---------------------------------------------------------------------------
# Function registry (named so that replay files can refer to them).
# Test predicates are total and bool valued; map functions may raise (the
# documented meaning of a failing path is "query is false").


def _t_is_none(v):
    return v is None


def _t_truthy(v):
    return bool(v)


def _t_is_upper(v):
    return isinstance(v, str) and v.isupper()


def _t_num_pos(v):
    return isinstance(v, (int, float)) and not isinstance(v, bool) and v > 0


def _t_eq_arg(v, a):
    return v == a


def _t_in_args(v, a, b):
    return v == a or v == b


def _t_even_us(v):
    return hasattr(v, "microsecond") and v.microsecond % 2 == 0


def _t_is_str(v):
    return isinstance(v, str)


def _t_always(v):
    return True


def _t_never(v):
    return False


def _t_gt_arg(v, a):
    return isinstance(v, (int, float)) and not isinstance(v, bool) and isinstance(a, (int, float)) and v > a


def _t_startswith_arg(v, a):
    return isinstance(v, str) and isinstance(a, str) and v.startswith(a)


def _t_between_args(v, lo, hi):
    return isinstance(v, (int, float)) and not isinstance(v, bool) and isinstance(lo, (int, float)) and lo <= v < hi


def _t_within(v, spec):
    """A range when given a tuple (lo, hi), an enumeration when given a list: the argument's TYPE matters."""
    if not isinstance(v, (int, float)) or isinstance(v, bool):
        return False
    if isinstance(spec, tuple):
        return spec[0] <= v <= spec[1]
    return v in spec


def _t_as_is(v):
    """A predicate that answers with a truthy / falsy value that is not a bool (the value itself).  Meaningful for a
    query used on its own or under ~ (inside & and | the DSL combines the operands' results with the & and | operators,
    which is only boolean logic for bools)."""
    return v


def _t_signbit(v):
    """True for numbers with the sign bit set - tells -0.0 from 0.0 and 0 although they compare (and hash) equal."""
    import math

    if isinstance(v, bool) or not isinstance(v, (int, float)):
        return False
    if isinstance(v, int):
        return v < 0  # (any size: no conversion to float)
    return math.copysign(1.0, v) < 0


def _t_length(v):
    return len(v) if isinstance(v, str) else 0


def _make_above(limit):
    def above(v):  # every closure made here shares module and qualified name
        return isinstance(v, (int, float)) and not isinstance(v, bool) and v > limit

    return above


_ABOVE_0, _ABOVE_1 = _make_above(0), _make_above(1.5)
_LAM_A, _LAM_B = (lambda v: v == "a"), (lambda v: v == "B")  # two lambdas from one source line


TESTS = {
    "is_none": _t_is_none,
    "truthy": _t_truthy,
    "is_upper": _t_is_upper,
    "num_pos": _t_num_pos,
    "eq_arg": _t_eq_arg,
    "in_args": _t_in_args,
    "even_us": _t_even_us,
    "is_str": _t_is_str,
    "always": _t_always,
    "never": _t_never,
    "gt_arg": _t_gt_arg,
    "startswith_arg": _t_startswith_arg,
    "between_args": _t_between_args,
    "within": _t_within,
    "as_is": _t_as_is,
    "signbit": _t_signbit,
    "length": _t_length,
    "above_0": _ABOVE_0,
    "above_1": _ABOVE_1,
    "lam_a": _LAM_A,
    "lam_b": _LAM_B,
    # functions of the operator module used as test functions (the index recognises operators by identity)
    "op_lt": operator.lt,
    "op_ge": operator.ge,
    "op_eq": operator.eq,
    "op_ne": operator.ne,
}


def _m_ident(v):
    return v


def _m_neg(v):
    return -v


def _m_upper(v):
    return v.upper()


def _m_len(v):
    return len(v)


def _m_abs(v):
    return abs(v)


def _m_str(v):
    return str(v)


def _m_trunc_s(v):
    return v.replace(microsecond=0)


def _m_plus1us(v):
    from datetime import timedelta

    return v + timedelta(microseconds=1)


def _m_raise(v):
    raise RuntimeError("map function failure")


def _m_first(v):
    return v[0]


def _m_mod2(v):
    return v % 2


def _m_size(v):
    # many-to-one on strings: "", "a", "b" -> "short"; None has no length (the query is false)
    return "short" if len(v) <= 1 else "long"


MAPS = {
    "ident": _m_ident,
    "neg": _m_neg,
    "upper": _m_upper,
    "len": _m_len,
    "abs": _m_abs,
    "str": _m_str,
    "trunc_s": _m_trunc_s,
    "plus1us": _m_plus1us,
    "raise": _m_raise,
    "first": _m_first,
    "mod2": _m_mod2,
    "size": _m_size,
}

# ---------------------------------------------------------------------------


def tupled(x):
    """Turn JSON lists back into tuples (recursively)."""
    if isinstance(x, list):
        return tuple(tupled(i) for i in x)
    if isinstance(x, tuple):
        return tuple(tupled(i) for i in x)
    return x


def is_time_rhs(rhs):
    return isinstance(rhs, tuple) and len(rhs) == 3 and rhs[0] == "T"


_COMPILED = {}


def _compiled(pattern, flags):
    key = (pattern, flags)
    if key not in _COMPILED:
        _COMPILED[key] = re.compile(pattern, flags)
    return _COMPILED[key]


def rhs_real(rhs):
    if is_time_rhs(rhs):
        return from_us(rhs[1], rhs[2])
    if isinstance(rhs, tuple) and rhs and rhs[0] == "LIST":
        return list(rhs[1:])  # a list argument (ASTs themselves hold tuples only)
    if isinstance(rhs, tuple) and rhs and rhs[0] == "TUPLE":
        return tuple(rhs[1:])
    if isinstance(rhs, tuple) and rhs and rhs[0] == "SET":
        return set(rhs[1:])
    if isinstance(rhs, tuple) and len(rhs) == 2 and rhs[0] == "NAIVE":
        # a naive comparison value (legal to construct; only used where no model answer is needed, i.e. C17)
        return from_us(rhs[1]).replace(tzinfo=None)
    return rhs


def has_map(path):
    return any(isinstance(p, tuple) for p in path)


class _SharedBases(dict):
    """One TagQuery() / FieldQuery() / ... object per query type, reused for every atom of an expression - the way
    applications write `F = FieldQuery(); (F.a > 1) & (F.b < 5)`."""

    def __init__(self, classes):
        super().__init__()
        self._classes = classes
        self._made = {}

    def __getitem__(self, attr):
        def get():
            if attr not in self._made:
                self._made[attr] = self._classes[attr]()
            return self._made[attr]

        return get


def to_real(ast, _bases=None):
    """Build the genuine tinyflux query object for an AST."""
    from tinyflux.queries import FieldQuery, MeasurementQuery, TagQuery, TimeQuery

    classes = {
        "time": TimeQuery,
        "measurement": MeasurementQuery,
        "tags": TagQuery,
        "fields": FieldQuery,
    }
    if _bases is None and ast[0] in ("and", "or", "not") and len(repr(ast)) % 2 == 0:
        _bases = _SharedBases(classes)  # every other compound expression shares its base query objects
    base = _bases if _bases is not None else classes
    kind = ast[0]
    if kind == "not":
        return ~to_real(ast[1], _bases)
    if kind == "and":
        return to_real(ast[1], _bases) & to_real(ast[2], _bases)
    if kind == "or":
        return to_real(ast[1], _bases) | to_real(ast[2], _bases)
    q = base[ast[1]]()
    if kind == "noop":
        # noop() matches every point - also when it is called on a query that already names a key or a map function
        for part in (ast[2] if len(ast) > 2 else ()):
            q = q.map(MAPS[part[1]]) if isinstance(part, tuple) else _key(q, part)
        return q.noop()
    if kind == "exists":
        if isinstance(ast[2], tuple):  # a path of several keys: tag / field values are never mappings, so never true
            for part in ast[2]:
                q = _key(q, part)
            return q.exists()
        return _key(q, ast[2]).exists()
    for part in ast[2]:
        if isinstance(part, tuple):
            q = q.map(MAPS[part[1]])
        else:
            q = _key(q, part)
    if kind == "cmp":
        op, rhs = ast[3], rhs_real(ast[4])
        if op == "==":
            return q == rhs
        if op == "!=":
            return q != rhs
        if op == "<":
            return q < rhs
        if op == "<=":
            return q <= rhs
        if op == ">":
            return q > rhs
        if op == ">=":
            return q >= rhs
        raise ValueError(op)
    if kind == "regex":
        fn = q.matches if ast[3] == "matches" else q.search
        pat = ast[4]
        if isinstance(pat, tuple) and pat[0] == "RE":
            pat = _compiled(pat[1], pat[2])  # a compiled pattern object (its own flags travel inside it)
        if ast[5]:
            return fn(pat, flags=ast[5])
        return fn(pat)
    if kind == "test":
        return q.test(TESTS[ast[3]], *[rhs_real(x) for x in ast[4]])
    raise ValueError(kind)


def _key(q, key):
    """Both documented spellings of a key: attribute access and item access (deterministic mix)."""
    if key.isidentifier() and not key.startswith("_") and len(key) % 2 == 1 and not hasattr(type(q), key):
        return getattr(q, key)
    return q[key]


class _Fail(Exception):
    pass


def _resolve(ast_attr, path, mp):
    if ast_attr == "time":
        value = None if mp.t is None else from_us(mp.t)
    elif ast_attr == "measurement":
        value = mp.m
    elif ast_attr == "tags":
        value = mp.tags
    else:
        value = mp.fields
    for part in path:
        if isinstance(part, tuple):
            try:
                value = MAPS[part[1]](value)
            except Exception:
                raise _Fail()
        else:
            if not isinstance(value, dict) or part not in value:
                raise _Fail()
            value = value[part]
    return value


def user_predicate_raises(ast, mp):
    """True when some test() atom's own predicate raises on the value it would be given for `mp`
    (evaluated for every atom, without short circuit: the DSL evaluates both operands of & and |).
    Such a predicate is not total on valid points - its error is the caller's, not the DSL's."""
    for a in atoms(ast):
        if a[0] != "test":
            continue
        try:
            value = _resolve(a[1], a[2], mp)
        except _Fail:
            continue
        try:
            TESTS[a[3]](value, *[rhs_real(x) for x in a[4]])
        except Exception:
            return True
    return False


def holds(ast, mp):
    """Documented truth value of `ast` on model point `mp`."""
    kind = ast[0]
    if kind == "not":
        return not holds(ast[1], mp)
    if kind == "and":
        return holds(ast[1], mp) and holds(ast[2], mp)
    if kind == "or":
        return holds(ast[1], mp) or holds(ast[2], mp)
    if kind == "noop":
        return True
    if kind == "exists":
        d = mp.tags if ast[1] == "tags" else mp.fields
        if isinstance(ast[2], tuple):
            for part in ast[2]:
                if not isinstance(d, dict) or part not in d:
                    return False
                d = d[part]
            return True
        return ast[2] in d
    try:
        value = _resolve(ast[1], ast[2], mp)
    except _Fail:
        return False
    if kind == "cmp":
        op, rhs = ast[3], ast[4]
        if ast[1] == "time" and not has_map(ast[2]) and is_time_rhs(rhs) and mp.t is not None:
            # Comparison of instants at microsecond resolution.
            return bool(OPS[op](mp.t, rhs[1]))
        try:
            return bool(OPS[op](value, rhs_real(rhs)))
        except Exception:
            return False
    if kind == "regex":
        if not isinstance(value, str):
            return False
        pat = ast[4]
        if isinstance(pat, tuple) and pat[0] == "RE":
            pat = _compiled(pat[1], pat[2])
            return (pat.match(value) if ast[3] == "matches" else pat.search(value)) is not None
        if ast[3] == "matches":
            return re.match(pat, value, ast[5]) is not None
        return re.search(pat, value, ast[5]) is not None
    if kind == "test":
        return bool(TESTS[ast[3]](value, *[rhs_real(x) for x in ast[4]]))
    raise ValueError(kind)


# ---------------------------------------------------------------------------
# Structural helpers used by classification / generators.


def walk(ast):
    yield ast
    if ast[0] == "not":
        yield from walk(ast[1])
    elif ast[0] in ("and", "or"):
        yield from walk(ast[1])
        yield from walk(ast[2])


def atoms(ast):
    return [n for n in walk(ast) if n[0] not in ("not", "and", "or")]


def depth(ast):
    if ast[0] == "not":
        return 1 + depth(ast[1])
    if ast[0] in ("and", "or"):
        return 1 + max(depth(ast[1]), depth(ast[2]))
    return 0


def shape(ast):
    """Abstract shape (operator skeleton and atom kinds), for distinct counts."""
    k = ast[0]
    if k == "not":
        return ("not", shape(ast[1]))
    if k in ("and", "or"):
        return (k, shape(ast[1]), shape(ast[2]))
    if k == "cmp":
        return ("cmp", ast[1], ast[3], "map" if has_map(ast[2]) else "")
    return (k, ast[1])


def show(ast):
    """Readable one-line rendering."""
    k = ast[0]
    if k == "not":
        return f"~({show(ast[1])})"
    if k in ("and", "or"):
        s = "&" if k == "and" else "|"
        return f"({show(ast[1])} {s} {show(ast[2])})"
    names = {"time": "Time", "measurement": "Meas", "tags": "Tag", "fields": "Field"}
    if k == "noop":
        return f"{names[ast[1]]}{''.join('[' + repr(p) + ']' for p in (ast[2] if len(ast) > 2 else ()))}.noop()"
    if k == "exists":
        keys = ast[2] if isinstance(ast[2], tuple) else (ast[2],)
        return f"{names[ast[1]]}{''.join('[' + repr(x) + ']' for x in keys)}.exists()"
    p = names[ast[1]]
    for part in ast[2]:
        p += f".map({part[1]})" if isinstance(part, tuple) else f"[{part!r}]"
    if k == "cmp":
        rhs = ast[4]
        if is_time_rhs(rhs):
            rhs = f"T({rhs[1]}us,{rhs[2]:+d}m)"
        else:
            rhs = repr(rhs)
        return f"{p} {ast[3]} {rhs}"
    if k == "regex":
        return f"{p}.{ast[3]}({ast[4]!r},{ast[5]})"
    if k == "test":
        return f"{p}.test({ast[3]},{list(ast[4])})"
    return repr(ast)
