"""Syscall boundary: strace driver (recorder, SIGKILL injector, errno injector).

Protocol: the database file of a live session is copied; a traced child process
opens the copy and performs exactly one operation.  A dry run yields the list
of syscalls touching the database path (strace -P); then, for every k, the run
is repeated with the k-th such call tampered with:
  * signal=SIGKILL  -> the process really dies on entering call k (C12),
  * error=ENOSPC/EIO -> call k really fails with that errno (C13).
strace counts `when=` per syscall among the path-matching invocations, so call k
is addressed as "the j-th traced invocation of syscall X".
"""
import json
import os
import re
import shutil
import subprocess
import sys

from . import VERIF

TRACE_SET = (
    "openat,open,creat,read,pread64,readv,write,pwrite64,writev,lseek,ftruncate,truncate,fsync,fdatasync,"
    "close,sendfile,copy_file_range,rename,renameat,renameat2,unlink,unlinkat,chmod,fchmod,fchmodat,link,linkat"
)
# (every syscall in the set is traced for the whole child; parse_log keeps the ones touching the database)
MUTATING = {
    "openat", "open", "creat", "write", "pwrite64", "writev", "ftruncate", "truncate", "sendfile", "copy_file_range",
    "rename", "renameat", "renameat2", "unlink", "unlinkat", "link", "linkat",
}
_avail = None
_why = ""


def available():
    global _avail, _why
    if _avail is None:
        exe = shutil.which("strace")
        if not exe:
            _avail, _why = False, "strace not installed"
        else:
            try:
                r = subprocess.run([exe, "-f", "-e", "trace=write", "-o", "/dev/null", "/bin/true"], capture_output=True, timeout=20)
                _avail = r.returncode == 0
                _why = "" if _avail else "ptrace not permitted: " + r.stderr.decode()[:200]
            except Exception as e:
                _avail, _why = False, repr(e)
    return _avail


def why_unavailable():
    available()
    return _why


_CALL = re.compile(r"^(\d+)\s+(\w+)\((.*?)(?:\)\s+=\s+(-?\d+|\?).*|\s*<unfinished \.\.\.>)$")
_QUOTED = re.compile(r'"((?:[^"\\]|\\.)*)"')
_FDARG = re.compile(r"^(\d+)(?:,|$)")


def _relevant_path(p, db_path):
    """The database file itself or a temporary file created next to it."""
    if p == db_path:
        return True
    d, b = os.path.split(p)
    return d == os.path.dirname(db_path) and (b.startswith("tmp") or b.startswith(os.path.basename(db_path)))


def parse_log(path, db_path):
    """Relevant calls (touching the database file, a temp file next to it, or an fd opened from them), in order.

    Each entry: (name, text, j) where j is the ordinal of this call among ALL invocations of that syscall in the
    trace - the number strace's `when=` expects when the trace is not path-filtered.
    """
    calls = []
    ordinal = {}
    fdmap = {}
    try:
        f = open(path, errors="replace")
    except FileNotFoundError:
        return calls
    with f:
        for line in f:
            line = line.rstrip("\n")
            if "<... " in line and "resumed>" in line:
                continue
            m = _CALL.match(line)
            if not m:
                continue
            pid, name, args, ret = m.group(1), m.group(2), m.group(3), m.group(4)
            ordinal[name] = ordinal.get(name, 0) + 1
            paths = [bytes(x, "utf-8").decode("unicode_escape", "replace") if "\\" in x else x for x in _QUOTED.findall(args)]
            rel = False
            fdm = _FDARG.match(args)
            fd = (pid, int(fdm.group(1))) if fdm else None
            if name in ("openat", "open", "creat"):
                if paths and _relevant_path(paths[0], db_path):
                    rel = True
                    if ret not in (None, "?") and int(ret) >= 0:
                        fdmap[(pid, int(ret))] = paths[0]
            elif name == "close":
                if fd in fdmap:
                    rel = True
                    del fdmap[fd]
            elif name in ("sendfile", "copy_file_range"):
                nums = re.findall(r"\b(\d+)\b", args)[:2]
                rel = any((pid, int(n)) in fdmap for n in nums)
            elif paths and name in ("rename", "renameat", "renameat2", "unlink", "unlinkat", "chmod", "fchmodat", "truncate", "link", "linkat"):
                rel = any(_relevant_path(p, db_path) for p in paths)
            elif fd is not None and fd in fdmap:
                rel = True
            if rel:
                calls.append((name, line.strip()[:170], ordinal[name], "INJECTED" in line))
    return calls


def run_child(job, db_path, workdir, inject=None, timeout=60):
    """Run one traced child. Returns (returncode, relevant calls, result json or None)."""
    jobfile = os.path.join(workdir, "job.json")
    outfile = os.path.join(workdir, "out.json")
    logfile = os.path.join(workdir, "strace.log")
    for p in (outfile, logfile):
        if os.path.exists(p):
            os.unlink(p)
    with open(jobfile, "w") as f:
        json.dump(dict(job, path=db_path, out=outfile), f)
    # not path-filtered (-P misses rename(2) onto the path in strace 6.1): relevance is decided by parse_log
    cmd = ["strace", "-f", "-e", f"trace={TRACE_SET}", "-o", logfile]
    if inject:
        cmd += ["-e", f"inject={inject}"]
    cmd += [sys.executable, "-m", "tfmon.sysmon"]
    env = dict(os.environ, PYTHONHASHSEED="0", TFMON_CHILD_JOB=jobfile, TMPDIR=os.path.join(workdir, "tmp"))
    os.makedirs(env["TMPDIR"], exist_ok=True)
    try:
        r = subprocess.run(cmd, cwd=VERIF, env=env, capture_output=True, timeout=timeout)
        rc = r.returncode
    except subprocess.TimeoutExpired:
        rc = "timeout"
    result = None
    if os.path.exists(outfile):
        try:
            with open(outfile) as f:
                result = json.load(f)
        except Exception:
            result = None
    return rc, parse_log(logfile, db_path), result


def op_start(calls):
    """Index of the first relevant call after the child's marker chmod (0 when there is no marker)."""
    for i, c in enumerate(calls):
        if c[0] in ("chmod", "fchmodat"):
            return i + 1
    return 0


def address(calls, k):
    """strace address ('X', j) of the k-th relevant call: j-th invocation of syscall X in the whole trace."""
    return calls[k][0], calls[k][2]


def hit_as_addressed(calls_dry, k, calls_inj, kind):
    """Did the tampered run hit the call we meant? (process start-up must be deterministic for `when=` to address it)"""
    name, j = address(calls_dry, k)
    if kind == "error":
        return any(c[0] == name and c[2] == j and c[3] for c in calls_inj)
    # kill: the last relevant call of the tampered run is the addressed one
    return bool(calls_inj) and calls_inj[-1][0] == name and calls_inj[-1][2] == j


class _Snap:
    def __init__(self):
        self.snaps = []
        self.events = []


def kill_sweep(res, s, op, pre_bytes, old, new, scratch, check_snapshots):
    """C12 sub-tier: really kill a child at every syscall of `op` touching the db."""
    from .ioproxy import kernel_bytes

    work = scratch.new_db_path()  # gives us a private directory
    wdir = os.path.dirname(work)
    db = os.path.join(wdir, "db.csv")
    job = {"cfg": s.cfg, "op": op, "mode": "once"}
    with open(db, "wb") as f:
        f.write(pre_bytes)
    rc, calls, result = run_child(job, db, wdir)
    if rc != 0 or not calls:
        res.count("kill.dry_run_failed")
        shutil.rmtree(wdir, ignore_errors=True)
        return
    res.count("kill.ops_swept")
    res.count("kill.syscalls_in_dry_runs", len(calls))
    mon = _Snap()
    def _sibs():
        out = {}
        for n in os.listdir(wdir):
            p_ = os.path.join(wdir, n)
            if os.path.isfile(p_) and p_ != db and n not in ("job.json", "out.json", "strace.log"):
                out[n] = kernel_bytes(p_) or b""
        return out

    def _clean():
        for n in os.listdir(wdir):
            p_ = os.path.join(wdir, n)
            if os.path.isfile(p_) and n not in ("job.json", "out.json", "strace.log"):
                os.unlink(p_)

    mon.snaps.append(("<child ran to completion>", kernel_bytes(db), _sibs()))
    for k in range(op_start(calls), len(calls)):
        name, j = address(calls, k)
        if name not in MUTATING:
            # dying before a call that cannot change the file leaves the state reached by the calls before it
            res.count("kill.non_mutating_calls_subsumed")
            continue
        _clean()
        with open(db, "wb") as f:
            f.write(pre_bytes)
        rc2, calls2, _ = run_child(job, db, wdir, inject=f"{name}:signal=SIGKILL:when={j}")
        res.count("kill.children_killed" if rc2 != 0 else "kill.children_survived")
        if rc2 == 0 or not hit_as_addressed(calls, k, calls2, "kill"):
            res.count("kill.misaddressed_skipped")
            continue
        mon.snaps.append((f"#{k}:syscall.{name}:{calls[k][1][:80]}", kernel_bytes(db), _sibs()))
    check_snapshots(res, s, op, old, new, mon, scratch, origin="kill")
    shutil.rmtree(wdir, ignore_errors=True)


def child_main():
    """Traced child: open the existing file, perform exactly one operation."""
    import time

    os.environ.setdefault("TZ", "UTC")
    time.tzset()
    with open(os.environ["TFMON_CHILD_JOB"]) as f:
        job = json.load(f)
    from . import qast
    from .common import Scratch
    from .histories import _retuple_point
    from .session import Session

    class _S:  # minimal scratch stand-in: the child never creates databases
        def new_db_path(self):
            raise RuntimeError

    if job.get("mode") == "insert-between-markers":
        return child_insert_between_markers(job)
    op = dict(job["op"])
    if op.get("q") is not None:
        op["q"] = qast.tupled(op["q"])
    if "p" in op:
        op["p"] = _retuple_point(op["p"])
    if "ps" in op:
        op["ps"] = [_retuple_point(p) for p in op["ps"]]
    if "args" in op and op["args"].get("time") and "static" in op["args"]["time"]:
        op["args"] = dict(op["args"])
        op["args"]["time"] = {"static": tuple(op["args"]["time"]["static"])}
    result = {"stage": "start"}

    def dump():
        with open(job["out"], "w") as f:
            json.dump(result, f, default=repr)

    try:
        s = Session(job["cfg"], _S(), path=job["path"])
        result["stage"] = "opened"
        # marker syscall: everything after it belongs to the operation itself
        os.chmod(job["path"], os.stat(job["path"]).st_mode & 0o777)
        out = s.do(op)
        result["stage"] = "op-done"
        result["exc"] = None if out.exc is None else [type(out.exc).__name__, str(out.exc)[:200], isinstance(out.exc, OSError)]
        result["returned"] = repr(out.real)[:200]
        dump()
        if job.get("mode") == "after-fault":
            # what does the live object answer now, and what does its own storage hold?
            from .session import norm_points

            try:
                result["live_all"] = norm_points(s.db.all(sorted=False))
            except Exception as e:
                result["live_all_exc"] = [type(e).__name__, str(e)[:200]]
            try:
                result["live_len"] = len(s.db)
            except Exception as e:
                result["live_len_exc"] = [type(e).__name__, str(e)[:200]]
            try:
                result["live_storage"] = norm_points(list(iter(s.db)))
            except Exception as e:
                result["live_storage_exc"] = [type(e).__name__, str(e)[:200]]
            dump()
        try:
            s.db.close()
            result["closed"] = True
        except Exception as e:
            result["close_exc"] = [type(e).__name__, str(e)[:200]]
        result["stage"] = "done"
    except BaseException as e:  # noqa: BLE001
        result["harness_exc"] = [type(e).__name__, str(e)[:300]]
    dump()


def child_insert_between_markers(job):
    """C16: open, optional early-terminating read, MARK, insert one point, MARK, close."""
    from tinyflux import Point, TagQuery, TinyFlux

    from .common import from_us

    result = {"stage": "start"}
    try:
        db = TinyFlux(job["path"], auto_index=job["auto_index"])
        if job.get("early") == "get":
            db.get(TagQuery().k == "a")
        elif job.get("early") == "contains":
            db.contains(TagQuery().j == "3")
        mode = os.stat(job["path"]).st_mode & 0o777
        os.chmod(job["path"], mode)  # marker syscall touching the database path
        db.insert(Point(time=from_us(job["t_us"]), tags={"k": "new"}, fields={"x": 1.5}))
        os.chmod(job["path"], mode)  # marker
        db.close()
        result["stage"] = "done"
    except BaseException as e:  # noqa: BLE001
        result["harness_exc"] = [type(e).__name__, str(e)[:300]]
    with open(job["out"], "w") as f:
        json.dump(result, f)
    if "harness_exc" in result:
        sys.exit(3)


if __name__ == "__main__":
    child_main()
