"""C06 - a valid index is always equivalent to one rebuilt from storage.

Invariant-at-a-hook monitor: after every operation (also ones that raise) with
db.index.valid true, an *answer battery* is evaluated on the live Index and on
Index().build(points read from storage) and must agree.  Validity transitions
are asserted where the index flag changes.

Reach: bounded-exhaustive exploration of the state graph spanned by a 16-op
alphabet (breadth first over distinct full internal states, memory storage,
auto_index on and off), exhaustive op sequences on CSV, plus random histories.
"""
import copy
import itertools

from .. import contracts, qast
from ..common import Scratch, from_us, quiet_stdout, rng_for
from ..core import Violation, h64
from ..gen import BASE_US
from ..histories import HistoryRunner, Profile, replay_of
from ..session import cfg_name, default_config

SHARDS = {"quick": 8, "thorough": 16}
TIMEOUT = {"quick": 1800, "thorough": 7200}
DEPTH_MEM = {"quick": 5, "thorough": 7}
DEPTH_CSV = {"quick": 3, "thorough": 4}
N_RANDOM = {"quick": 10, "thorough": 150}

T0 = BASE_US
H = 3_600_000_000


# ---------------------------------------------------------------------------
# The alphabet.  Every op is (name, callable(db)); callables build fresh
# arguments on each call (MemoryStorage stores the caller's objects).


def _pt(us, m, tags, fields):
    from tinyflux import Point

    return Point(time=from_us(us), measurement=m, tags=dict(tags), fields=dict(fields))


def _raise(_):
    raise RuntimeError("updater failed")


def alphabet(csv=False):
    from datetime import timedelta

    from tinyflux import FieldQuery, MeasurementQuery, TagQuery, TimeQuery

    A = [
        ("ins_a", lambda db: db.insert(_pt(T0, "m0", {"k": "a"}, {"x": 1}))),
        ("ins_early", lambda db: db.insert(_pt(T0 - H, "m1", {"j": "b"}, {"x": 2}))),
        ("ins_dup", lambda db: db.insert(_pt(T0, "m0", {}, {"y": None}))),
        ("ins_late", lambda db: db.insert(_pt(T0 + 1, "m1", {"k": None}, {}))),
        ("insmulti_bad", lambda db: db.insert_multiple([_pt(T0 + 2, "m0", {"k": "a"}, {"x": 2}), "not a point"])),
        ("rm_tag", lambda db: db.remove(TagQuery().k == "a")),
        ("rm_time", lambda db: db.remove(TimeQuery() < from_us(T0))),
        ("rm_field", lambda db: db.remove(FieldQuery().x >= 2)),
        ("rm_not", lambda db: db.remove(~(MeasurementQuery() == "m0"))),
        ("rm_all", lambda db: db.remove_all()),
        ("drop_m1", lambda db: db.drop_measurement("m1")),
        ("upd_field", lambda db: db.update(MeasurementQuery() == "m0", fields={"x": 5})),
        ("upd_time", lambda db: db.update(TimeQuery() >= from_us(T0), time=lambda t: t - timedelta(days=1))),
        ("upd_raise", lambda db: db.update(TagQuery().k.exists(), tags=_raise)),
        ("reindex", lambda db: db.reindex()),
        ("read", lambda db: db.count(TagQuery().k == "a")),
    ]
    if csv:
        A.append(("reopen", None))
    return A


EXPECTED_ERRORS = {"insmulti_bad": ("TypeError",), "upd_raise": ("RuntimeError",)}

# ---------------------------------------------------------------------------
# The answer battery.


def battery_queries(points):
    qs = []
    seen = set()
    if len(points) > 40:
        # big databases: probe the earliest, the latest and an evenly spaced sample of the stored instants
        by_t = sorted(points, key=lambda p: p.t)
        step = max(1, len(by_t) // 20)
        points = by_t[:10] + by_t[-10:] + by_t[::step]
    for p in points:
        for d in (0, 1, -1):
            us = p.t + d
            if us in seen:
                continue
            seen.add(us)
            for op in qast.OPS:
                qs.append(("cmp", "time", (), op, ("T", us, 0)))
    atoms = [
        ("cmp", "measurement", (), "==", "m0"), ("cmp", "measurement", (), "==", "m1"),
        ("cmp", "measurement", (), "!=", "absent"), ("cmp", "measurement", (), "==", "_default"),
        ("cmp", "tags", ("k",), "==", "a"), ("cmp", "tags", ("k",), "==", None), ("cmp", "tags", ("j",), "!=", "b"),
        ("exists", "tags", "k"), ("exists", "tags", "t"),
        ("cmp", "fields", ("x",), ">=", 2), ("cmp", "fields", ("x",), "==", 1), ("cmp", "fields", ("y",), "==", None),
        ("exists", "fields", "y"), ("exists", "fields", "x"), ("noop", "tags"), ("noop", "time"),
    ]
    qs += atoms
    qs += [("not", a) for a in atoms]
    qs += [("and", a, b) for a, b in itertools.combinations(atoms[:10], 2)]
    qs += [("or", atoms[0], atoms[4]), ("or", ("not", atoms[1]), atoms[9])]
    return qs


def index_answers(index, qs_real, names, tag_keys, field_keys):
    a = {}
    a["len"] = len(index)
    a["empty"] = index.empty
    try:
        a["latest_time"] = index.latest_time if len(index._timestamps) else None
    except Exception as e:
        a["latest_time"] = ("raised", type(e).__name__)
    a["measurements"] = sorted(index.get_measurements())
    for m in names:
        a[f"tag_keys[{m}]"] = sorted(index.get_tag_keys(m))
        a[f"field_keys[{m}]"] = sorted(index.get_field_keys(m))
        a[f"timestamps[{m}]"] = list(index.get_timestamps(m))
        tv = index.get_tag_values([], m)
        a[f"tag_values[{m}]"] = {k: sorted(v, key=lambda x: (x is None, x)) for k, v in tv.items()}
        tv = index.get_tag_values(list(tag_keys), m)
        a[f"tag_values_sel[{m}]"] = {k: sorted(v, key=lambda x: (x is None, x)) for k, v in tv.items()}
        for fk in field_keys:
            a[f"field_values[{fk},{m}]"] = list(index.get_field_values(fk, m))
    for i, q in enumerate(qs_real):
        try:
            a[f"search[{i}]"] = sorted(index.search(q)._items)
        except contracts.ContractBroken:
            a[f"search[{i}]"] = "contract-broken"
        except Exception as e:
            a[f"search[{i}]"] = ("raised", type(e).__name__)
    return a


def check_index(res, db, ctx):
    """Battery on the live index versus a rebuilt one. Returns a Violation or None."""
    from tinyflux.index import Index

    from ..model import from_real

    if not db.index.valid:
        res.count("states_index_invalid")
        return None
    pts = list(iter(db))
    fresh = Index()
    fresh.build(iter(pts))
    try:
        mpts = [from_real(p) for p in pts]
    except Exception:
        mpts = []
    qs = battery_queries(mpts)
    qs_real = [qast.to_real(q) for q in qs]
    names = [None, "m0", "m1", "_default", "absent"]
    live = index_answers(db.index, qs_real, names, ("k", "j", "nokey"), ("x", "y", "nokey"))
    want = index_answers(fresh, qs_real, names, ("k", "j", "nokey"), ("x", "y", "nokey"))
    res.evaluations += 1
    res.count("battery_runs")
    res.count("battery_answers", len(live))
    if len(pts):
        res.count("battery_runs_nonempty")
    idx = db.index
    try:  # diagnostic only, on private arrays that another implementation need not have
        if len(idx._timestamps) != len(idx._storage_pos_sorted_by_ts):
            res.count("diagnostic.time_arrays_length_drift")
    except AttributeError:
        res.count("diagnostic.private_arrays_not_present")
    if live == want:
        return None
    diff = [k for k in live if live[k] != want[k]][:6]
    detail = dict(ctx)
    detail["rows"] = len(pts)
    detail["differing_answers"] = {
        k: {"live": repr(live[k])[:200], "rebuilt": repr(want[k])[:200],
            "query": qast.show(qs[int(k[7:-1])]) if k.startswith("search[") else None}
        for k in diff
    }
    return Violation("C06", "valid-index-differs-from-rebuild", detail, replay=ctx.get("replay"), features={"first_diff": diff[0].split("[")[0]})


def _generic_state(o, depth=0, seen=None):
    """Implementation-independent structural view of an object graph (attributes, containers, points, datetimes)."""
    from datetime import datetime

    from tinyflux import Point

    if seen is None:
        seen = set()
    if o is None or isinstance(o, (bool, int, float, str, bytes)):
        return (type(o).__name__, o)
    if isinstance(o, datetime):
        return ("dt", o.isoformat())
    if isinstance(o, Point):
        return ("P", _generic_state(o.time), o.measurement, tuple(o.tags.items()), tuple((k, _generic_state(v)) for k, v in o.fields.items()))
    if id(o) in seen or depth > 8:
        return ("...",)
    seen = seen | {id(o)}
    if isinstance(o, dict):
        return ("d", tuple(sorted(((repr(_generic_state(k, depth + 1, seen)), _generic_state(v, depth + 1, seen)) for k, v in o.items()), key=repr)))
    if isinstance(o, (set, frozenset)):
        return ("s", tuple(sorted((_generic_state(x, depth + 1, seen) for x in o), key=repr)))
    if isinstance(o, (list, tuple)) or type(o).__name__ == "array":
        return ("l", tuple(_generic_state(x, depth + 1, seen) for x in o))
    names = []
    if hasattr(o, "__dict__"):
        names += list(vars(o))
    for klass in type(o).__mro__:
        names += [n for n in getattr(klass, "__slots__", ()) if isinstance(n, str)]
    if not names or callable(o):
        return ("o", type(o).__name__)
    return ("o", type(o).__name__, tuple((n, _generic_state(getattr(o, n, None), depth + 1, seen)) for n in sorted(set(names))))


def full_state_digest(db):
    """Digest of everything that can influence future behaviour (memory storage)."""
    try:
        return _known_layout_digest(db)
    except AttributeError:
        # another implementation of the index / storage internals: fall back on a structural walk of the objects
        return h64(repr((_generic_state(db.index), _generic_state(db.storage), sorted(getattr(db, "_measurements", {})))))


def _known_layout_digest(db):
    idx = db.index
    st = db.storage
    mem = tuple((p.time, p.measurement, tuple(p.tags.items()), tuple(p.fields.items())) for p in st._memory)
    return h64((
        mem, idx._valid, idx._num_items, sorted((k, sorted(v.items(), key=repr)) for k, v in idx._tags.items()),
        sorted(idx._fields.items()), sorted(idx._measurements.items()), idx._timestamps, idx._storage_pos_sorted_by_ts,
        sorted(db._measurements),
    ))


def apply_op(res, db, name, fn, ctx):
    """Run one alphabet op; returns a Violation or None (validity transitions)."""
    from ..model import from_real

    pre_valid = db.index.valid
    auto = db._auto_index
    try:
        pre_max = max((from_real(p).t for p in iter(db)), default=None)
    except Exception:
        pre_max = None
    exc = None
    with quiet_stdout():
        try:
            fn(db)
        except contracts.ContractBroken as e:
            return Violation("C06", "find-helper-contract", dict(ctx, op=name, exc=repr(e)), replay=ctx.get("replay"))
        except Exception as e:
            exc = e
    res.count(f"op.{name}")
    if exc is not None:
        res.count("ops_raised")
        if type(exc).__name__ not in EXPECTED_ERRORS.get(name, ()):
            res.count("ops_raised_unexpectedly")
            return Violation("C06", "operation-raises", dict(ctx, op=name, exc=f"{type(exc).__name__}: {exc}"), replay=ctx.get("replay"))
    post_valid = db.index.valid
    if auto and pre_valid and name in ("ins_a", "ins_dup", "ins_late", "ins_early"):
        t = {"ins_a": T0, "ins_dup": T0, "ins_late": T0 + 1, "ins_early": T0 - H}[name]
        if pre_max is None or t >= pre_max:
            res.count("transition.in_order_insert_checked")
            if not post_valid:
                return Violation("C06", "in-order-insert-invalidated-index", dict(ctx, op=name), replay=ctx.get("replay"))
        else:
            res.count("transition.out_of_order_insert_seen")
    if auto and name == "read":
        res.count("transition.read_checked")
        if not post_valid:
            return Violation("C06", "read-left-index-invalid", dict(ctx, op=name), replay=ctx.get("replay"))
    return None


# ---------------------------------------------------------------------------


def explore_memory(res, auto_index, depth, shard, nshards):
    """Breadth-first over distinct full internal states (exhaustive to `depth`)."""
    from tinyflux import TinyFlux
    from tinyflux.storages import MemoryStorage

    A = alphabet()
    root = TinyFlux(storage=MemoryStorage, auto_index=auto_index)
    frontier = [(root, ())]
    seen = {full_state_digest(root)}
    cfg = f"mem/{'ai' if auto_index else 'noai'}"
    transitions = 0
    for d in range(depth):
        nxt = []
        for si, (db, path) in enumerate(frontier):
            # level 0/1 are expanded by every shard (cheap); deeper levels are partitioned
            for oi, (name, fn) in enumerate(A):
                if d == depth - 1 and (si * len(A) + oi) % nshards != shard:
                    continue
                try:
                    child = copy.deepcopy(db)
                except Exception:  # noqa: BLE001 - not copyable (a lock, a weak reference, ...): rebuild the state by replay
                    child = TinyFlux(storage=MemoryStorage, auto_index=auto_index)
                    by_name = dict(A)
                    with quiet_stdout():
                        for done in path:
                            try:
                                by_name[done](child)
                            except Exception:  # noqa: BLE001
                                pass
                    res.count("bfs.states_rebuilt_by_replay")
                p = path + (name,)
                ctx = {"config": cfg, "sequence": list(p), "replay": {"mode": "mem", "auto_index": auto_index, "sequence": list(p)}}
                v = apply_op(res, child, name, fn, ctx)
                transitions += 1
                if v is None:
                    v = check_index(res, child, ctx)
                if v is not None:
                    res.violate(v)
                    continue  # do not expand a state that is already wrong
                dg = full_state_digest(child)
                if dg in seen:
                    continue
                seen.add(dg)
                res.distinct.add(dg)
                if len(res.samples) < 3 and d == 2 and oi == 5:
                    res.sample({"config": cfg, "sequence": list(p)})
                nxt.append((child, p))
        frontier = nxt
        res.counters[f"bfs.{cfg}.level{d + 1}.new_states"] = len(nxt)
    res.count("bfs.transitions", transitions)
    res.counters[f"bfs.{cfg}.distinct_states"] = len(seen)


def explore_csv(res, auto_index, depth, shard, nshards, scratch):
    from tinyflux import TinyFlux

    A = alphabet(csv=True)
    cfg = f"csv/{'ai' if auto_index else 'noai'}"
    k = 0
    for seq in itertools.product(range(len(A)), repeat=depth):
        k += 1
        if k % nshards != shard:
            continue
        path = scratch.new_db_path()
        db = TinyFlux(path, auto_index=auto_index)
        names = []
        try:
            for oi in seq:
                name, fn = A[oi]
                names.append(name)
                ctx = {"config": cfg, "sequence": list(names), "replay": {"mode": "csv", "auto_index": auto_index, "sequence": list(names)}}
                if name == "reopen":
                    db.close()
                    with quiet_stdout():
                        db = TinyFlux(path, auto_index=auto_index)
                    res.count("op.reopen")
                    v = None
                else:
                    v = apply_op(res, db, name, fn, ctx)
                if v is None:
                    v = check_index(res, db, ctx)
                if v is not None:
                    res.violate(v)
                    break
                res.seen((cfg, tuple(names)))
            res.count("csv_sequences")
        finally:
            db.close()
            scratch.drop_db_dir(path)


READ_OPS_THAT_REINDEX = {"search", "count", "contains", "get", "select", "all", "get_measurements", "get_tag_keys",
                         "get_field_keys", "get_tag_values", "get_field_values", "get_timestamps"}


class _ReadFault:
    """Monitor: the j-th row read from the primary file fails with EIO (once)."""

    def __init__(self, j):
        self.j = j
        self.n = 0
        self.hit = False

    def before(self, ev):
        if ev.target == "primary" and ev.kind == "iter" and not self.hit:
            self.n += 1
            if self.n == self.j:
                self.hit = True
                raise OSError(5, "injected EIO while reading the database file")

    def after(self, ev):
        pass


def faulty_rebuild(res, s, c):
    """Error path of the index itself: the rebuild that a read triggers is cut short by a read error.  Whatever the
    read does, an index that is flagged valid afterwards must still equal a rebuilt one."""
    from .. import ioproxy

    n = len(s.model.points)
    hub = ioproxy.IOHub()
    hub.primary = s.path
    mon = _ReadFault(max(1, n // 2))
    hub.monitor = mon
    exc = None
    with ioproxy.Installed(hub):
        ioproxy.wrap_open_handles(hub, s.db.storage)
        try:
            with quiet_stdout():
                s.db.count(qast.to_real(("noop", "measurement")))
        except Exception as e:  # noqa: BLE001
            exc = e
        finally:
            hub.enabled = False
            ioproxy.unwrap_handles(s.db.storage)
    if not mon.hit:
        res.count("rebuild_read_fault_not_reached")
        return
    res.count("rebuilds_cut_short_by_read_error")
    res.count("rebuilds_cut_short.read_raised" if exc is not None else "rebuilds_cut_short.read_answered")
    v = check_index(res, s.db, dict(c, after="read error on row %d of %d during the rebuild triggered by a read" % (mon.j, n)))
    if v is not None:
        res.violate(v)


def make_random_judge(res):
    def judge(kind, s, out, ctx):
        if kind == "read" and s.cfg["auto_index"] and out.op["op"] in READ_OPS_THAT_REINDEX and out.exc is None:
            # with automatic indexing on, any read leaves the index valid
            res.count("transition.read_checked")
            if not out.post_valid:
                res.violate(Violation("C06", "read-left-index-invalid", {"config": cfg_name(s.cfg), "read": out.op["op"], "valid_before": out.pre_valid},
                                      replay={"mode": "history", **replay_of(s)}))
            return
        if kind != "write":
            return
        seq = replay_of(s)
        c = {"config": cfg_name(s.cfg), "last_op": out.op if "q" not in out.op else dict(out.op, q=qast.show(out.op["q"])), "replay": {"mode": "history", **seq}}
        res.count("random_history_ops")
        v = check_index(res, s.db, c)
        if v is not None:
            res.violate(v)
        elif s.path and s.cfg["auto_index"] and not s.valid() and len(s.model.points) >= 2 and not s.cfg.get("csv"):
            faulty_rebuild(res, s, c)
        if s.cfg["auto_index"] and out.op["op"] in ("insert",) and out.pre_valid and out.exc is None:
            pre = ctx["pre"]
            tmax = max((p.t for p in pre.points), default=None)
            tnew = s.model.points[-1].t if s.model.points else None
            if tmax is None or (tnew is not None and tnew >= tmax):
                res.count("transition.in_order_insert_checked")
                if not out.post_valid:
                    res.violate(Violation("C06", "in-order-insert-invalidated-index", c, replay=c["replay"]))

    return judge


def run(res, tier, seed, shard, nshards):
    contracts.install()
    res.rule = (
        "memory storage: breadth-first exploration of ALL distinct full internal states (contents + every index array + "
        "valid flag + handle cache) reachable with <= depth ops of a 16-op alphabet (3 in/out-of-order/duplicate inserts, "
        "a late insert, insert_multiple([p, BAD]), 4 removes, remove_all, drop_measurement, 2 updates incl. a "
        "time-reordering one, an update whose callable raises, reindex, a read), auto_index on and off; CSV: all op "
        "sequences (17-op alphabet incl. reopen) to a smaller depth; plus seeded random histories; after every op with a "
        "valid index an answer battery (len/empty/latest_time/all getters/search over time,measurement,tag,field atoms, "
        "negations, conjunctions) is compared between the live index and Index().build(storage); distinct_nontrivial = "
        "distinct full internal states (memory) + distinct op sequences (CSV)"
    )
    for auto in (True, False):
        explore_memory(res, auto, DEPTH_MEM[tier], shard, nshards)
    with Scratch("c06") as scratch:
        for auto in (True, False):
            explore_csv(res, auto, DEPTH_CSV[tier], shard, nshards, scratch)
        judge = make_random_judge(res)
        for ci, cfg in enumerate([default_config("mem", True), default_config("csv", True), default_config("mem", False), default_config("csv", False)]):
            for h in range(N_RANDOM[tier]):
                rng = rng_for("C06", tier, seed, shard, ci, h)
                prof = Profile()
                prof.query_probes = True
                prof.time_probes = False
                prof.n_random_probes = 1
                prof.getter_probes = h % 2 == 0
                if h % 5 == 3:  # instants at and around the epoch
                    from .. import gen as _gen

                    prof.grid = _gen.EPOCH_GRID
                if h % 5 == 4:  # stored instants later than the wall clock, next to points stamped at insertion
                    from .. import gen as _gen

                    prof.grid = _gen.FUTURE_GRID
                    res.count("future_dated_histories")
                if h % 5 == 1 and cfg["storage"] == "mem":  # integers beyond 2**53 (memory storage keeps them exactly)
                    prof.extra_field_vals = [2**53, 2**53 + 1, -(2**53) - 1, 10**17 + 3]
                if h % 10 == 7:  # names, keys and values from the pool of awkward strings
                    from .. import gen as _gen

                    _gen.make_wild(prof, rng)
                if h % 5 == 2:  # hundreds of rows
                    prof.max_rows = 400
                    prof.min_ops, prof.max_ops = 3, 6
                if h % 5 == 0:  # long random sequences
                    prof.min_ops = prof.max_ops = 150 if tier == "quick" else 400
                    prof.max_rows = 30
                    res.count("long_random_histories")
                HistoryRunner(res, cfg, scratch, rng, prof, judge).run()
    if shard == 0:
        res.counters["depth_memory"] = DEPTH_MEM[tier]
        res.counters["depth_csv"] = DEPTH_CSV[tier]
    res.exhaustive = True
    contracts.drain(res)
    res.require("battery_runs_nonempty")
    res.require("transition.in_order_insert_checked")
    res.require("transition.read_checked")
    res.require("ops_raised")
    res.require("csv_sequences")
    res.require("random_history_ops")
    res.require("long_random_histories")
    res.require("future_dated_histories")
    res.require("rebuilds_cut_short_by_read_error")
    res.assumptions += [
        "the answer battery is finite: equivalence is decided on its answers (all getters, len/empty/latest_time and ~150 "
        "searches per state), not on private arrays; structural drift of private arrays is only logged as a diagnostic",
        "exhaustive = every state reachable within the depth bound over the stated alphabet, not beyond",
    ]


def replay(res, rep):
    from tinyflux import TinyFlux
    from tinyflux.storages import MemoryStorage

    r = rep["replay"]
    if r.get("mode") == "history":
        from ..histories import replay_ops

        with Scratch("c06r") as scratch:
            replay_ops(res, r["cfg"], r["ops"], scratch, make_random_judge(res))
        return
    csv = r["mode"] == "csv"
    A = dict(alphabet(csv=csv))
    with Scratch("c06r") as scratch:
        path = scratch.new_db_path() if csv else None
        db = TinyFlux(path, auto_index=r["auto_index"]) if csv else TinyFlux(storage=MemoryStorage, auto_index=r["auto_index"])
        names = []
        for name in r["sequence"]:
            names.append(name)
            ctx = {"sequence": list(names), "replay": r}
            if name == "reopen":
                db.close()
                db = TinyFlux(path, auto_index=r["auto_index"])
                v = None
            else:
                v = apply_op(res, db, name, A[name], ctx)
            if v is None:
                v = check_index(res, db, ctx)
            if v is not None:
                res.violate(v)
                break
        db.close()
