"""C07 - exploration getters and lengths report exactly what is stored.

Reference-model monitor on get_measurements / get_tag_keys / get_tag_values /
get_field_keys / get_field_values / get_timestamps / len / iter / all, through
the database (measurement present / absent / none) and through handles, after
every mutating op of seeded histories, in 4 configurations (index-served and
scan-served), with values None / '' and strings containing line breaks.
"""
from .. import gen, contracts
from ..common import Scratch, rng_for
from ..core import Violation
from ..histories import HistoryRunner, Profile, describe, replay_of, replay_ops
from ..session import GETTERS, cfg_name, default_config

SHARDS = {"quick": 8, "thorough": 16}
TIMEOUT = {"quick": 1800, "thorough": 7200}
N_HIST = {"quick": 40, "thorough": 400}

CONFIGS = [
    default_config("mem", True), default_config("mem", False),
    default_config("csv", True), default_config("csv", False),
]


def make_judge(res):
    def judge(kind, s, out, ctx):
        if kind != "read" or out.op["op"] not in GETTERS:
            return
        op = out.op
        serving = "index" if (s.cfg["auto_index"] or out.pre_valid) else "scan"
        cfg = cfg_name(s.cfg)
        scope = "handle" if op.get("via") == "h" else ("filtered" if op.get("m") else "db")
        res.count(f"answers.{op['op']}.{serving}.{cfg}")
        res.count(f"scope.{scope}")
        res.seen((tuple(p.canon() for p in s.model.points), op["op"], op.get("m"), op.get("via"), repr(op.get("keys", op.get("key"))), serving))
        if op.get("m") == "absent":
            res.count("measurement_absent")
        if out.agrees():
            # the returned container is the caller's: scribbling over it must not change what the next call reports
            if op["op"].startswith("get_") and res.evaluations % 3 == 0:
                try:
                    raw = s.raw_getter(op)
                    if isinstance(raw, list):
                        raw.append("scribble")
                        raw.reverse()
                    elif isinstance(raw, dict):
                        for v in raw.values():
                            if isinstance(v, list):
                                v.append("scribble")
                        raw["scribble"] = ["x"]
                    again = s.do(op)
                    s.log.pop()
                    res.count("getter_results_scribbled_then_asked_again")
                    if not again.agrees():
                        res.violate(Violation(
                            "C07", f"{op['op']}-hands-out-internal-state", dict(describe(s, again), note="the previous result of the same call was modified in place by the caller"),
                            replay=replay_of(s), features={"serving": serving, "op": op["op"], "cfg": cfg, "scope": scope},
                        ))
                except Exception:
                    pass
            return
        res.violate(Violation(
            "C07", "getter-raises" if out.exc is not None else f"{op['op']}-wrong",
            describe(s, out), replay=replay_of(s),
            features={"serving": serving, "op": op["op"], "cfg": cfg, "scope": scope},
        ))

    return judge


def profile(h=0):
    p = Profile()
    p.getter_probes = True
    p.query_probes = False
    p.extra_tag_vals = ["a\nb", "x\r\ny", "\n"]
    if h % 4 == 2:  # keys that look like the CSV prefixes, contain blanks or dots
        p.extra_tag_keys = ["a b", "_tag_q", "t_q", "f_q"]
        p.extra_field_keys = ["f_q", "x.y", "_field_q", "t_q"]
    if h % 20 == 9:  # hundreds of rows: thresholds far beyond a dozen rows, long index arrays, many matches
        p.max_rows = 700
        p.max_time_probes = 30
        p.min_ops, p.max_ops = 3, 7
    if h % 20 == 13:  # many measurements (prefixes of each other, differing in case / trailing blank), many tag keys and values
        p.meas = ["m0", "m1", "_default", "m", "m00", "M0", "m0 ", "a", "a/b", "None", "k", "x", "1", "measurement", "m1x",
                  "m*", "m?", "m[01]", "rate[5m]", "rate5", ".*", "m.", "%", "m\\d"]  # names that are patterns in some syntax
        p.extra_tag_keys = [f"key{i}" for i in range(14)]
        p.extra_tag_vals = [f"v{i}" for i in range(25)] + ["12", "1.5", "x" * 300]
    if h % 10 == 8:  # strings that are different but equal under some unicode normalisation / folding (NFC, NFKC, casefold)
        p.meas = ["m0", "caf\u00e9", "cafe\u0301", "m2", "m\u00b2", "cpu", "\uff43\uff50\uff55", "stra\u00dfe", "strasse"]
        p.extra_tag_vals = ["m0", "caf\u00e9", "cafe\u0301", "m2", "m\u00b2", "cpu", "\uff43\uff50\uff55", "stra\u00dfe", "strasse"][1:]
    if h % 10 == 6:  # a few measurement names that are patterns in some syntax, next to names they would match
        p.meas = ["m0", "m1", "m*", "m?", "m[01]", "rate[5m]", "rate5", "m."]
    if h % 20 == 17:  # instants at and around the epoch (timestamp 0.0, negative timestamps) and year 1900
        p.grid = gen.EPOCH_GRID
    if h % 8 == 5:
        p.max_rows = 45
        p.min_ops, p.max_ops = 4, 10
    if h % 4 == 3:  # no state peeks through the handle between a write and the getters that follow it
        p.no_handle_peeks = True
    return p


def _with_big_ints(p, cfg, h):
    """Memory storage keeps ints exactly: integers beyond 2**53 (CSV stores numbers as floats - a listed C05 finding)."""
    if cfg["storage"] == "mem" and h % 5 == 1:
        p.extra_field_vals = [2**53, 2**53 + 1, -(2**53) - 1, 10**17 + 3]
    return p


def _wild(p, h, rng, res, cfg=None):
    """Every fifth history draws its names, keys and values from the pool of awkward strings and numbers."""
    if h % 5 == 4 and p.max_rows <= 45 and len(p.meas) <= 8:
        gen.make_wild(p, rng, cfg)
        res.count("histories_wild_vocabulary")
    return p


def _cfg_variant(cfg, h):
    """Non-default storage options, each on its own residue class of the history number, so that they also occur in
    pairs (buffered inserts + "w+", a dialect + an encoding, ...)."""
    if cfg["storage"] != "csv":
        return cfg
    import csv as _csv

    out = dict(cfg)
    if h % 11 == 5:
        out["access_mode"] = "w+"  # a database created with "w+" and then used for everything
    if h % 13 == 8 or h % 17 == 3:
        out["encoding"] = "latin-1"  # every file the storage opens must be opened with it, scratch files included
    if h % 3 == 0:
        out["flush"] = False  # reads go through the same buffered handle
    if h % 7 == 4 or h % 10 == 9:
        out["csv"] = [{"delimiter": ";"}, {"quotechar": "'", "quoting": _csv.QUOTE_ALL}, {"delimiter": "\t", "lineterminator": "\n"}][h % 3]
    return out


def run(res, tier, seed, shard, nshards):
    contracts.install()
    res.rule = (
        "seeded histories (all mutating ops, <=12 rows, tag values incl. None, '' and strings with LF / CRLF) in 4 "
        "configurations; after every mutating op every getter, len, iter and all is called for no measurement, present "
        "and absent measurements, through db and handle, with several tag_keys selections; distinct_nontrivial = "
        "distinct (contents, getter, measurement, arguments, serving path)"
    )
    judge = make_judge(res)
    with Scratch("c07") as scratch:
        for ci, cfg in enumerate(CONFIGS):
            for h in range(N_HIST[tier]):
                rng = rng_for("C07", tier, seed, shard, ci, h)
                cfgv = _cfg_variant(cfg, h)
                prof = _wild(_with_big_ints(profile(h), cfg, h), h, rng, res, cfgv)
                if cfgv.get("encoding"):
                    # text the configured encoding can express and ASCII cannot
                    prof.extra_tag_vals = list(prof.extra_tag_vals) + ["\u00e9t\u00e9", "\u00fc", "\u00a3"]
                    prof.extra_meas = list(prof.extra_meas) + ["m\u00e9t\u00e9o"]
                    res.count("histories_non_default_encoding")
                s = HistoryRunner(res, cfgv, scratch, rng, prof, judge).run()
                if h == 0 and shard == 0 and ci in (0, 3):
                    res.sample({"config": cfg_name(cfg), "first_ops": s.log[:5]})
    contracts.drain(res)
    for cfg in CONFIGS:
        for g in ("get_field_values", "get_tag_values", "get_timestamps", "len"):
            res.require(f"answers.{g}.index.{cfg_name(cfg)}")
            if not cfg["auto_index"]:
                res.require(f"answers.{g}.scan.{cfg_name(cfg)}")
    res.require("measurement_absent")
    res.require("scope.handle")
    res.require("getter_results_scribbled_then_asked_again")
    res.assumptions += ["<= 12 rows; process TZ = UTC; documented order: keys/measurements sorted, tag values sorted with None last, field values and timestamps in insertion order"]


def replay(res, rep):
    r = rep["replay"]
    with Scratch("c07r") as scratch:
        replay_ops(res, r["cfg"], r["ops"], scratch, make_judge(res))
