"""C17 - queries that compare equal behave identically.

Events: the real q1 == q2, hash(q1) == hash(q2) and the truth vectors q(p)
over the C09 universe, for all ordered pairs of an expression set closed under
operand swapping; commutativity of & and |; map queries equal to nothing.
"""
from .. import qast
from ..core import Violation
from .c09 import CORE_ATOMS, atom_vocabulary, quick_atoms, universe

SHARDS = {"quick": 4, "thorough": 16}
TIMEOUT = {"quick": 1800, "thorough": 7200}


def expression_set(tier):
    A = atom_vocabulary()
    # TimeQuery with a naive comparison value: legal to construct, so equality must not confuse it with the aware one
    from ..gen import BASE_US

    naive = [("cmp", "time", (), op, ("NAIVE", us)) for op in ("==", "!=", "<", ">=") for us in (BASE_US, BASE_US + 1)]
    A = list(A) + naive
    # comparison values that are equal but not identical: an int and the equal float, the same instant presented in
    # different zones (queries built from them may or may not compare equal - if they do, hash and behaviour must agree)
    twins = []
    for op in ("==", ">=", "<", "!="):
        twins += [("cmp", "fields", ("x",), op, 2), ("cmp", "fields", ("x",), op, 2.0), ("cmp", "fields", ("x",), op, 0), ("cmp", "fields", ("x",), op, -0.0)]
        twins += [("cmp", "time", (), op, ("T", BASE_US, 0)), ("cmp", "time", (), op, ("T", BASE_US, 330)), ("cmp", "time", (), op, ("T", BASE_US, -480))]
    # comparison values whose Python hashes collide although the values differ (hash(-1) == hash(-2) in CPython)
    for op in ("==", "<", ">="):
        twins += [("cmp", "fields", ("x",), op, -1), ("cmp", "fields", ("x",), op, -2), ("cmp", "fields", ("x",), op, -2.0)]
    # the same numbers handed to a test function as a tuple, as a list (unequal arguments: unequal queries, or at least
    # queries that behave alike) - and the function tells a range from an enumeration by the argument's type
    twins += [("test", "fields", ("x",), "within", (("TUPLE", 0, 2),)), ("test", "fields", ("x",), "within", (("LIST", 0, 2),)),
              ("test", "fields", ("x",), "within", (("TUPLE", -1, 2),)), ("test", "fields", ("x",), "within", (("LIST", -1, 2),))]
    # the same key name addressed as a tag and as a field
    twins += [("exists", "tags", "x"), ("exists", "fields", "x"), ("exists", "tags", "k"), ("exists", "fields", "k"),
              ("cmp", "tags", ("x",), "==", None), ("cmp", "fields", ("x",), "==", None), ("cmp", "tags", ("k",), "!=", None), ("cmp", "fields", ("k",), "!=", None),
              ("noop", "tags", ("k",)), ("noop", "fields", ("k",))]
    # a key that contains the character a rendering of paths would join keys with, next to the path of those keys
    for sep in (".", "/", ","):
        twins += [("cmp", "tags", ("k" + sep + "j",), "==", "a"), ("cmp", "fields", ("x" + sep + "y",), ">=", 2)]
    twins += [("cmp", "tags", ("k", "j"), "==", "a"), ("cmp", "fields", ("x", "y"), ">=", 2),
              ("noop", "tags", ("k.j",)), ("noop", "tags", ("k", "j")), ("noop", "fields", ("x.y",)), ("noop", "fields", ("x", "y"))]
    # a bool comparison value next to the equal int / float (True == 1 == 1.0 and they hash alike)
    for op in ("==", "!=", ">="):
        twins += [("cmp", "fields", ("x",), op, True), ("cmp", "fields", ("x",), op, 1), ("cmp", "fields", ("x",), op, 1.0), ("cmp", "fields", ("x",), op, False), ("cmp", "fields", ("x",), op, 0)]
    # a compiled pattern with its own flags next to the same pattern text without them
    import re as _re

    twins += [("regex", "tags", ("k",), "matches", ("RE", "^b$", _re.I), 0), ("regex", "tags", ("k",), "matches", "^b$", 0),
              ("regex", "tags", ("k",), "matches", ("RE", "^b$", 0), 0), ("regex", "tags", ("k",), "matches", "^b$", _re.I)]
    # (membership by repr: as tuples, an atom on 1 and the same atom on 1.0 or True are "equal" and would be merged)
    have = {repr(t) for t in A}
    A = A + [t for t in twins if repr(t) not in have]
    E = list(A) + [("not", a) for a in A]
    sub = quick_atoms(A)[: (18 if tier == "quick" else 34)]
    lits = sub if tier == "quick" else sub + [("not", a) for a in sub[:12]]
    pick = [t for t in twins if (t[0] == "cmp" and t[3] in ("==", ">=") and t[1] == "fields" and repr(t[4]) in ("2", "2.0", "-1", "-2", "True", "1", "1.0", "None"))
            or t[0] in ("test", "exists", "regex") or (t[0] == "cmp" and t[1] == "time" and t[3] == ">=")]
    # a bounded selection for the quadratic pair construction (all twins take part as bare atoms and negations anyway)
    seen_kind, small = {}, []
    for t in pick:
        kind = (t[0], t[1], t[3] if t[0] == "cmp" else None)
        seen_kind[kind] = seen_kind.get(kind, 0) + 1
        if seen_kind[kind] <= (4 if t[0] == "cmp" and t[1] == "fields" else 2):
            small.append(t)
    lits = lits + naive[:3] + (small if tier == "quick" else pick)
    for a in lits:
        for b in lits:
            E.append(("and", a, b))
            E.append(("or", a, b))
    # depth 2 with mixed (simple, compound) operands, both orders
    d0 = list(CORE_ATOMS)
    d1c = [("not", a) for a in d0] + [(op, a, b) for op in ("and", "or") for a in d0 for b in d0]
    lim = 30 if tier == "quick" else len(d1c)
    for x in d1c[:lim]:
        for a in d0:
            for op in ("and", "or"):
                E.append((op, x, a))
                E.append((op, a, x))
    # operands containing map(): simple and compound, on either side of simple and compound operands
    maps_simple = [("cmp", "tags", ("k", ("map", "upper")), "==", "A"), ("cmp", "tags", ("k", ("map", "upper")), "==", "B"),
                   ("cmp", "fields", ("x", ("map", "neg")), "<", 0),
                   ("cmp", "tags", (("map", "ident"), "k"), "==", "a"), ("cmp", "fields", (("map", "ident"), "x"), ">=", 1.5)]
    maps_compound = [("not", maps_simple[0]), ("and", d0[1], maps_simple[1]), ("or", maps_simple[2], d0[3])]
    plain = d0[:3] + d1c[:6] + d1c[-4:]
    for mq in maps_simple + maps_compound:
        for x in plain:
            for op in ("and", "or"):
                E.append((op, x, mq))
                E.append((op, mq, x))
        E.append(("not", mq))
    if tier == "thorough":
        for x in d1c[:40]:
            for y in d1c[:40]:
                E.append(("and", x, y))
                E.append(("or", x, y))
    # de-duplicate ASTs but keep order
    seen, out = set(), []
    for e in E:
        if repr(e) not in seen:
            seen.add(repr(e))
            out.append(e)
    return out


def contains_map(ast):
    return any(a[0] in ("cmp", "regex", "test") and qast.has_map(a[2]) for a in qast.atoms(ast))


def run(res, tier, seed, shard, nshards):
    res.rule = (
        "expression set = all atoms, all negations, all binary &,| over an atom subset, depth-2 expressions with "
        "mixed simple/compound operands in both operand orders; every ORDERED pair (q1,q2) is compared with the real "
        "==; for equal pairs truth vectors over the 120 point universe and hashes must agree; separately a&b vs b&a "
        "and a|b vs b|a for all operand pairs; distinct_nontrivial = distinct unordered pairs that compared equal "
        "although built from different ASTs or as separate objects"
    )
    pts = universe()
    rpts = [p.to_real() for p in pts]
    E = expression_set(tier)
    qs, vecs, hashes, maps = [], [], [], []
    for e in E:
        q = qast.to_real(e)
        qs.append(q)
        vecs.append(tuple(bool(q(p)) for p in rpts))
        try:
            hashes.append(hash(q))
        except Exception as ex:
            hashes.append(("unhashable", type(ex).__name__))
        maps.append(contains_map(e))
    # between the two constructions: thousands of unrelated distinct queries are built and combined (whatever the
    # query layer remembers about operands it has seen must not make old and new queries meet)
    from tinyflux import FieldQuery, TagQuery

    churn = []
    for i in range(3000 if tier == "quick" else 12000):
        a_ = FieldQuery().churn == i
        b_ = TagQuery().churn == f"v{i}"
        churn.append((a_ & b_) | ~a_)
    res.counters["queries_built_between_the_two_constructions"] = 3 * len(churn)
    # a second, separately constructed object per expression (so that x == x' is object independent)
    qs2 = [qast.to_real(e) for e in E]
    n = len(E)
    if shard == 0:
        res.counters["expressions"] = n
        res.counters["ordered_pairs_space"] = n * n
        res.sample({"expressions": [qast.show(E[i]) for i in (0, n // 3, n - 1)]})
    eq_pairs = 0
    for i in range(shard, n, nshards):
        qi, vi, hi = qs[i], vecs[i], hashes[i]
        for j in range(n):
            qj = qs2[j]
            res.evaluations += 1
            try:
                same = qi == qj
            except Exception as ex:
                res.violate(Violation("C17", "eq-raises", {"q1": qast.show(E[i]), "q2": qast.show(E[j]), "exc": repr(ex)}, replay={"a": E[i], "b": E[j]}))
                continue
            if same is not True and same is not False:
                res.violate(Violation("C17", "eq-not-bool", {"q1": qast.show(E[i]), "q2": qast.show(E[j]), "observed": repr(same)}, replay={"a": E[i], "b": E[j]}))
                continue
            if not same:
                continue
            eq_pairs += 1
            res.count("equal_pairs")
            if i != j:
                res.count("equal_pairs_distinct_ast")
            res.seen((min(i, j), max(i, j)))
            if maps[i] or maps[j]:
                res.violate(Violation("C17", "map-query-compares-equal", {"q1": qast.show(E[i]), "q2": qast.show(E[j])}, replay={"a": E[i], "b": E[j]}))
                continue
            if vi != vecs[j]:
                k = next(x for x in range(len(vi)) if vi[x] != vecs[j][x])
                res.violate(Violation(
                    "C17", "equal-queries-differ-in-behaviour",
                    {"q1": qast.show(E[i]), "q2": qast.show(E[j]), "point": pts[k].to_json(), "q1(p)": vi[k], "q2(p)": vecs[j][k]},
                    replay={"a": E[i], "b": E[j]},
                ))
            if hi != hashes[j] or hash(qi) != hash(qj):
                res.violate(Violation("C17", "equal-queries-differ-in-hash", {"q1": qast.show(E[i]), "q2": qast.show(E[j])}, replay={"a": E[i], "b": E[j]}))
    # reflexivity through a separately built object (non-map, non-noop expressions)
    for i in range(shard, n, nshards):
        if maps[i]:
            res.count("map_expressions")
            if qs[i] == qs[i] or qs[i] == qs2[i]:
                res.violate(Violation("C17", "map-query-compares-equal", {"q1": qast.show(E[i]), "q2": "itself"}, replay={"a": E[i], "b": E[i]}))
    # commutativity: a & b == b & a for all operand pairs (hashable operands)
    ops = [e for e in E if qast.depth(e) <= 1]
    if tier == "quick":
        ops = ops[:: 2]
    m = len(ops)
    for x in range(shard, m, nshards):
        a = ops[x]
        if contains_map(a):
            continue
        qa = qast.to_real(a)
        for y in range(m):
            b = ops[y]
            if contains_map(b):
                continue
            qb = qast.to_real(b)
            res.evaluations += 1
            res.count("commutativity_pairs")
            if qast.depth(a) != qast.depth(b):
                res.count("commutativity_pairs_mixed_simple_compound")
            for name, l, r in (("and", qa & qb, qb & qa), ("or", qa | qb, qb | qa)):
                if not (l == r) or hash(l) != hash(r):
                    res.violate(Violation(
                        "C17", f"{name}-not-commutative",
                        {"a": qast.show(a), "b": qast.show(b), "eq": l == r, "hash_eq": hash(l) == hash(r)},
                        replay={"a": a, "b": b, "comm": name},
                        features={"mixed": qast.depth(a) != qast.depth(b)},
                    ))
    res.exhaustive = True
    res.require("equal_pairs")
    res.require("commutativity_pairs")
    if shard == 0:
        res.require("map_expressions")
    res.assumptions += [
        "test()/map() callables come from a fixed registry of deterministic functions",
        "a bare noop() query equals nothing, itself included (its hash key is the empty tuple); compounds containing one are ordinary hashable queries and take part in the commutativity clause",
    ]


def replay(res, rep):
    r = rep["replay"]
    a, b = qast.tupled(r["a"]), qast.tupled(r["b"])
    pts = universe()
    rpts = [p.to_real() for p in pts]
    qa, qb = qast.to_real(a), qast.to_real(b)
    if r.get("comm"):
        l, rr = ((qa & qb, qb & qa) if r["comm"] == "and" else (qa | qb, qb | qa))
        if not (l == rr) or hash(l) != hash(rr):
            res.violate(Violation("C17", f"{r['comm']}-not-commutative", {"a": qast.show(a), "b": qast.show(b)}, replay=r))
        return
    if qa == qb:
        va = [bool(qa(p)) for p in rpts]
        vb = [bool(qb(p)) for p in rpts]
        if va != vb or hash(qa) != hash(qb) or contains_map(a) or contains_map(b):
            res.violate(Violation("C17", "equal-queries-differ", {"q1": qast.show(a), "q2": qast.show(b)}, replay=r))
