"""C11 - an operation that raises leaves the database as it was, and still usable.

Fault enumeration: after a seeded prefix history, one failing call is injected
 - a non-Point (or a generator that raises) at EVERY position of insert_multiple,
 - an update/update_all callable (time / measurement / tags / fields) that raises,
   or returns an invalid value, on the i-th selected point for EVERY i,
 - invalid arguments at every API entry point,
 - writes on databases opened read-only;
then the stored contents (must equal the pre-state, for insert_multiple plus the
prefix before the offender), the index battery of C06 and 5-10 further
operations with read probes are compared with the model.
"""
from datetime import timedelta

from .. import contracts, gen, qast
from ..common import Scratch, quiet_stdout, rng_for
from ..core import Violation
from ..histories import Profile, describe, gen_write_op, getter_probes, query_probes, replay_of
from ..model import MPoint, apply_update
from ..session import Session, cfg_name, default_config, real_point
from . import c06

REPLAY_BY_RERUN = True  # workloads are deterministic in (tier, seed, shard): replay re-runs the shard
SHARDS = {"quick": 8, "thorough": 16}
TIMEOUT = {"quick": 1800, "thorough": 7200}
N_HIST = {"quick": 12, "thorough": 150}

CONFIGS = [
    default_config("mem", True), default_config("mem", False),
    default_config("csv", True), default_config("csv", False),
]

SLOT_ORDER = ["time", "measurement", "tags", "fields"]


class Boom(RuntimeError):
    pass


class BaseBoom(BaseException):
    """Not an Exception subclass (like KeyboardInterrupt): cleanup written with `except Exception` misses it."""


def failing_callable(slot, k, mode):
    """Updater for `slot` that misbehaves on its k-th call (0 based)."""
    n = [0]

    def f(old):
        i = n[0]
        n[0] += 1
        if i == k:
            if mode == "raise":
                raise Boom(f"updater failed on selected point {k}")
            if mode == "raise-base":
                raise BaseBoom(f"updater interrupted on selected point {k}")
            if mode == "stop-iteration":
                raise StopIteration
            return {"time": "not a datetime", "measurement": 5, "tags": {"z": 5}, "fields": {"z": "NaN?"}}[slot]
        if slot == "time":
            return old + timedelta(hours=1)
        if slot == "measurement":
            return old + "x"
        if slot == "tags":
            return {"z": "1"}
        return {"z": 1}

    f.calls = n
    return f


def model_after_good_update(mp, slot):
    if slot == "time":
        return apply_update(mp, {"time": {"call": "t_plus_1h"}})
    if slot == "measurement":
        return apply_update(mp, {"measurement": {"call": "m_suffix"}})
    if slot == "tags":
        return apply_update(mp, {"tags": {"static": {"z": "1"}}})
    return apply_update(mp, {"fields": {"static": {"z": 1}}})


def bad_generator(points, k):
    for i, p in enumerate(points):
        if i == k:
            raise Boom("generator failed")
        yield p
    if k >= len(points):
        raise Boom("generator failed at the end")


def invalid_argument_calls():
    """(label, callable(db)) pairs: every API entry point with invalid arguments."""
    from tinyflux import Point, TagQuery

    Q = TagQuery().k.exists()
    return [
        ("search(non-query)", lambda db: db.search(123)),
        ("count(non-query)", lambda db: db.count("x")),
        ("contains(non-query)", lambda db: db.contains(None)),
        ("get(non-query)", lambda db: db.get(5.5)),
        ("select(bad key)", lambda db: db.select("nonsense", Q)),
        ("select(non-iterable keys)", lambda db: db.select(5, Q)),
        ("update(nothing to do)", lambda db: db.update(Q)),
        ("update_all(nothing to do)", lambda db: db.update_all()),
        ("update(time=5)", lambda db: db.update(Q, time=5)),
        ("update(measurement=5)", lambda db: db.update(Q, measurement=5)),
        ("update(tags={'k':5})", lambda db: db.update(Q, tags={"k": 5})),
        ("update(fields={'x':'a'})", lambda db: db.update(Q, fields={"x": "a"})),
        ("update(unset_tags=5)", lambda db: db.update(Q, unset_tags=5)),
        ("update(unset_fields=[1])", lambda db: db.update(Q, unset_fields=[1])),
        ("update(non-query)", lambda db: db.update(123, tags={"a": "b"})),
        ("remove(non-query)", lambda db: db.remove("x")),
        ("insert(non-point)", lambda db: db.insert({"time": 1})),
        ("insert(measurement=5)", lambda db: db.insert(Point(tags={"a": "b"}), measurement=5)),
        ("insert_multiple(non-iterable)", lambda db: db.insert_multiple(5)),
        ("handle.update(nothing to do)", lambda db: db.measurement("m0").update(Q)),
        ("handle.insert(non-point)", lambda db: db.measurement("m0").insert("p")),
        ("handle.select(bad key)", lambda db: db.measurement("m0").select("tags.", Q)),
        ("get_tag_values(non-iterable)", lambda db: db.get_tag_values(5)),
    ] + mixed_valid_invalid_update_calls()


def mixed_valid_invalid_update_calls():
    """update / update_all / handle.update with one VALID static argument next to one INVALID one, for every ordered
    pair of argument kinds and a query that matches every point: whichever argument the implementation looks at
    first, nothing may have been applied when the call raises."""
    from datetime import datetime, timezone

    from tinyflux import MeasurementQuery

    ALL = MeasurementQuery().noop()
    valid = {"time": datetime(2030, 1, 2, 3, 4, 5, 6, tzinfo=timezone.utc), "measurement": "moved", "tags": {"k": "new", "zz": "1"},
             "fields": {"x": 99, "zz": 1.5}, "unset_tags": "k", "unset_fields": ["x"]}
    invalid = {"time": "yesterday", "measurement": 123, "tags": {"k": 5}, "fields": {"x": "a"}, "unset_tags": 5, "unset_fields": [1]}
    out = []
    for good in valid:
        for bad in invalid:
            if good == bad:
                continue
            kw = {good: valid[good], bad: invalid[bad]}
            out.append((f"update({good}=valid, {bad}=invalid)", lambda db, kw=kw: db.update(ALL, **kw)))
            out.append((f"update_all({good}=valid, {bad}=invalid)", lambda db, kw=kw: db.update_all(**kw)))
            out.append((f"handle.update({good}=valid, {bad}=invalid)", lambda db, kw=kw: db.measurement("m0").update(ALL, **kw)))
    return out


def in_place_mutation_signature(pre, post, sel, k, slot, cfg, good_update=None):
    """Features telling whether a changed content is the listed in-place-mutation mechanism."""
    f = {"storage": cfg["storage"], "position": k}
    if cfg["storage"] != "mem" or len(pre) != len(post):
        f["explained_by_in_place_mutation"] = False
        return f
    ok = True
    changed = 0
    for i, (a, b) in enumerate(zip(pre, post)):
        if a.canon() == b:
            continue
        changed += 1
        if i not in sel:
            ok = False
            break
        r = sel.index(i)
        if r < k:
            if (good_update(a) if good_update else model_after_good_update(a, slot)).canon() != b:
                ok = False
                break
        else:
            ok = False  # the k-th and later selected points must be untouched (single-slot updaters)
            break
    f["explained_by_in_place_mutation"] = ok and changed > 0 and k > 0
    f["changed_rows"] = changed
    return f


class FaultRun:
    def __init__(self, res, cfg, scratch, rng):
        self.res = res
        self.cfg = cfg
        self.scratch = scratch
        self.rng = rng
        self.prof = Profile()
        self.prof.allow_no_time = False

    def violate(self, s, kind, detail, features=None):
        d = {"config": cfg_name(self.cfg), "history": [o if "q" not in o else dict(o, q=qast.show(o["q"])) for o in s.log[-6:]]}
        d.update(detail)
        self.res.violate(Violation("C11", kind, d, replay={"cfg": self.cfg, "ops": list(s.log), "fault": detail.get("fault")}, features=features or {}))

    def prefix(self, s):
        for _ in range(self.rng.randint(3, 8)):
            op = gen_write_op(self.rng, s.model, self.prof)
            out = s.do(op)
            post = s.contents()
            if post != [p.canon() for p in s.model.points]:
                s.model.points = [MPoint(c[0], c[1], dict(c[2]), dict(c[3])) for c in post]
                self.res.count("prefix_resynced")

    def after_fault(self, s, fault, exc, expected, extra_features=None, sel=None, k=None, slot=None, good_update=None):
        """Common oracle after the failing call."""
        res = self.res
        res.evaluations += 1
        res.count(f"faults.{fault.split(':')[0]}")
        if len(res.samples) < 5 and fault.split(":")[0] not in {x.get("family") for x in res.samples if isinstance(x, dict)}:
            res.sample({"family": fault.split(":")[0], "config": cfg_name(self.cfg), "fault": fault,
                        "exception": None if exc is None else f"{type(exc).__name__}: {exc}"[:120],
                        "rows_before": len(s.model.points), "rows_expected_after": len(expected),
                        "history": [o if "q" not in o else dict(o, q=qast.show(o["q"])) for o in s.log[-4:]]})
        res.seen((fault, cfg_name(self.cfg), tuple(p.canon() for p in s.model.points)))
        file_first = self.file_now(s)
        if exc is None:
            # The property speaks about calls that raise; a call that returned is not a fault sequence.
            res.count("call_did_not_raise_skipped")
            post = s.contents()
            if post != [p.canon() for p in s.model.points]:
                s.model.points = [MPoint(c[0], c[1], dict(c[2]), dict(c[3])) for c in post]
            return True
        try:
            post = s.contents()
        except Exception as e:
            self.violate(s, "database-unreadable-after-failed-call", {"fault": fault, "exc": repr(e)})
            return False
        want = [p.canon() for p in expected]
        if post != want:
            feats = dict(extra_features or {})
            if sel is not None:
                feats.update(in_place_mutation_signature(list(s.model.points), post, sel, k, slot, self.cfg, good_update))
            feats["fault"] = fault.split(":")[0]
            feats["failing_op_is_update"] = fault.startswith("update_callable") or ":update(" in fault or ":handle.update(" in fault
            self.violate(s, "contents-changed-by-failed-call",
                         {"fault": fault, "exception": f"{type(exc).__name__}: {exc}"[:200], "expected": repr(want)[:600], "observed": repr(post)[:600]}, feats)
            # index and later behaviour are downstream of the changed contents: stop this run here
            return False
        else:
            s.model.points = [p.copy() for p in expected]
            res.count("contents_as_before")
            if not self.file_agrees(s, fault, "right after the failed call", file_first, want):
                return False
        v = c06.check_index(res, s.db, {"config": cfg_name(self.cfg), "after_fault": fault, "replay": {"cfg": self.cfg, "ops": list(s.log), "fault": fault}})
        res.count("index_battery_after_fault")
        if v is not None:
            v.prop = "C11"
            v.kind = "index-disagrees-with-storage-after-failed-call"
            res.violate(v)
            return False
        return True

    def file_now(self, s):
        """CSV: what the file holds right now (independent reader, separate descriptor). Must be taken BEFORE any
        peek through the database's own handle: seeking that handle flushes its write buffer."""
        if self.cfg["storage"] != "csv":
            return None
        from .. import csvcodec

        try:
            return [p.canon() for p in csvcodec.decode_bytes(s.file_bytes(), "utf-8", {})]
        except csvcodec.DecodeError as e:
            return f"independent reader: {e}"

    def file_agrees(self, s, fault, when, got, want):
        if got is None:
            return True
        self.res.count("file_checks_after_fault")
        if got != want:
            self.violate(s, "file-lags-behind-database-after-failed-call",
                         {"fault": fault, "when": when, "file_decodes_to": repr(got)[:500], "database_holds": repr(want)[:500]})
            return False
        return True

    def continue_history(self, s, fault):
        """5-10 further ops with probes, compared with the model."""
        res, rng = self.res, self.rng
        for _ in range(rng.randint(5, 10)):
            op = gen_write_op(rng, s.model, self.prof)
            pre = s.model.copy()
            out = s.do(op)
            res.count("ops_after_fault")
            file_first = self.file_now(s)
            post = s.contents()
            bad = None
            if not out.agrees():
                bad = ("later-write-misbehaves", out)
            elif post != [p.canon() for p in s.model.points]:
                bad = ("later-write-wrong-contents", out)
            if bad is None and not self.file_agrees(s, fault, f"after later op {op['op']}", file_first, [p.canon() for p in s.model.points]):
                return
            if bad is None:
                for probe in query_probes(rng, s.model, self.prof)[:14] + getter_probes(rng, s.model, self.prof)[:10]:
                    pout = s.do(probe)
                    res.count("reads_after_fault")
                    if not pout.agrees():
                        bad = ("later-read-wrong", pout)
                        break
            if bad is not None:
                # attribute: would a database that never saw the failing call behave?
                twin = Session.fresh_from_model(self.cfg, self.scratch, pre if bad[0].startswith("later-write") else s.model)
                try:
                    tout = twin.do(bad[1].op)
                    t_ok = tout.agrees()
                finally:
                    twin.discard()
                if t_ok:
                    self.violate(s, bad[0] + "-after-failed-call", dict(describe(s, bad[1]), fault=fault))
                else:
                    res.count("later_mismatch_not_attributable")
                return

    # -- the fault families ----------------------------------------------------
    def run_one(self, fam):
        s = Session(self.cfg, self.scratch)
        try:
            with quiet_stdout():
                self.prefix(s)
                getattr(self, "fault_" + fam)(s)
        finally:
            s.discard()

    def fault_insert_multiple(self, s):
        rng = self.rng
        n = rng.randint(1, 4)
        for k in range(n + 1):
            for style in ("list-non-point", "generator-raises"):
                specs = [gen.gen_point(rng, self.prof.meas, False) for _ in range(n)]
                pts = [real_point(sp) for sp in specs]
                if style == "list-non-point":
                    if k == n:
                        continue
                    arg = pts[:k] + [rng.choice(["junk", 5, None, {"time": 1}])] + pts[k + 1:]
                else:
                    arg = bad_generator(pts, k)
                via_h = rng.random() < 0.3
                exc = None
                try:
                    if via_h:
                        s.db.measurement("m1").insert_multiple(arg)
                    else:
                        s.db.insert_multiple(arg)
                except Exception as e:
                    exc = e
                from ..session import model_point

                expected = list(s.model.points) + [model_point(sp, "m1" if via_h else None) for sp in specs[:k]]
                fault = f"insert_multiple:{style}@{k}/{n}"
                s.log.append({"op": "FAULT", "fault": fault})
                if not self.after_fault(s, fault, exc, expected):
                    return
        self.continue_history(s, "insert_multiple")

    def fault_update_callable(self, s):
        rng = self.rng
        from tinyflux import MeasurementQuery, TagQuery

        for slot in SLOT_ORDER:
            for mode in ("raise", "invalid", rng.choice(["raise-base", "stop-iteration"])):
                # choose a selection
                choice = rng.choice(["all", "m0", "k-exists", "update_all"])
                if choice == "all":
                    q, qa, m = MeasurementQuery().noop(), ("noop", "measurement"), None
                elif choice == "m0":
                    q, qa, m = MeasurementQuery() == "m0", ("cmp", "measurement", (), "==", "m0"), None
                elif choice == "k-exists":
                    q, qa, m = TagQuery().k.exists(), ("exists", "tags", "k"), None
                else:
                    q, qa, m = None, None, None
                sel = s.model._sel(qa, m)
                for k in range(len(sel)):
                    f = failing_callable(slot, k, mode)
                    exc = None
                    try:
                        if q is None:
                            s.db.update_all(**{slot: f})
                        else:
                            s.db.update(q, **{slot: f})
                    except (Exception, BaseBoom) as e:
                        exc = e
                    fault = f"update_callable:{slot}:{mode}@{k}/{len(sel)}:{choice}"
                    s.log.append({"op": "FAULT", "fault": fault})
                    self.res.count(f"update_fault_position.{'first' if k == 0 else 'later'}")
                    if exc is None and mode != "invalid" and sel:
                        # the callable raised inside the call (whatever the exception type: StopIteration included) and
                        # the call returned as if nothing had happened: then at least nothing may have been committed
                        self.res.count("callable_error_swallowed_by_the_call")
                        try:
                            post_ = s.contents()
                        except Exception as e:  # noqa: BLE001
                            post_ = [("BAD", repr(e))]
                        if post_ != [p_.canon() for p_ in s.model.points]:
                            self.violate(s, "callable-error-swallowed-and-partial-result-committed",
                                         {"fault": fault, "expected": repr([p_.canon() for p_ in s.model.points])[:500], "observed": repr(post_)[:500]},
                                         {"fault": "update_callable", "mode": mode})
                            return
                    if not self.after_fault(s, fault, exc, list(s.model.points), sel=sel, k=k, slot=slot):
                        return
        self.continue_history(s, "update_callable")

    def fault_raising_predicate(self, s):
        """The query's own test()/map() function raises while remove/update/reads evaluate it."""
        from tinyflux import FieldQuery, MeasurementQuery, TagQuery

        def boom_after(k):
            n = [0]

            def f(v):
                n[0] += 1
                if n[0] > k:
                    raise Boom("query predicate failed")
                return True

            return f

        for k in (0, 1, 3):
            calls = [
                ("remove(test raises)", lambda db, k=k: db.remove(TagQuery().k.test(boom_after(k)))),
                ("remove(measurement test raises)", lambda db, k=k: db.remove(MeasurementQuery().test(boom_after(k)))),
                ("update(test raises)", lambda db, k=k: db.update(FieldQuery().x.test(boom_after(k)), tags={"zz": "1"})),
                ("handle.remove(test raises)", lambda db, k=k: db.measurement("m0").remove(MeasurementQuery().test(boom_after(k)))),
                ("count(test raises)", lambda db, k=k: db.count(MeasurementQuery().test(boom_after(k)))),
                ("search(test raises)", lambda db, k=k: db.search(TagQuery().k.test(boom_after(k)))),
            ]
            for label, call in calls:
                exc = None
                try:
                    call(s.db)
                except Exception as e:
                    exc = e
                fault = f"raising_predicate:{label}@{k}"
                s.log.append({"op": "FAULT", "fault": fault})
                kw = {}
                if label.startswith("update("):
                    # points on which the predicate was evaluated (those with field x), in storage order
                    kw = dict(sel=[i for i, p in enumerate(s.model.points) if "x" in p.fields], k=k,
                              good_update=lambda mp: apply_update(mp, {"tags": {"static": {"zz": "1"}}}))
                if not self.after_fault(s, fault, exc, list(s.model.points), **kw):
                    return
        self.continue_history(s, "raising_predicate")

    def fault_any_raising_call(self, s):
        """Whatever makes a call raise - including a call that had no business raising: if it raises, the contents are
        as before.  A history over text that the CSV layer has to quote or escape (delimiters, quotes, line breaks,
        non-ASCII); every op that raises is judged like an injected fault."""
        prof = Profile()
        prof.allow_no_time = False
        prof.extra_tag_vals = ["a,b", 'say "hi"', "x\ny", "tab\there", "\u00e9\u4e2d", " lead", "trail ", "'single'", ";|"]
        prof.extra_meas = ["m,0", 'm"q', "m\r\n"]
        prof.extra_tag_keys = ["k,1", 'q"k']
        for _ in range(self.rng.randint(10, 18)):
            op = gen_write_op(self.rng, s.model, prof)
            pre = s.model.copy()
            out = s.do(op)
            if out.exc is None:
                post = s.contents()
                if post != [p.canon() for p in s.model.points]:
                    self.res.count("prefix_resynced")
                    if any(c and c[0] == "BAD" for c in post):
                        return
                    s.model.points = [MPoint(c[0], c[1], dict(c[2]), dict(c[3])) for c in post]
                continue
            self.res.count("history_calls_that_raised")
            self.res.count("history_calls_that_raised.as_documented" if type(out.exc).__name__ in (out.exp_exc or ()) else "history_calls_that_raised.undocumented")
            fault = f"any_raising_call:{op['op']}:{type(out.exc).__name__}"
            # the model already holds what the call was allowed to leave (nothing; for a batch the prefix before the offending element)
            if not self.after_fault(s, fault, out.exc, list(s.model.points)):
                return
        self.continue_history(s, "any_raising_call")

    def fault_unserialisable(self, s):
        """Points that pass validation but cannot be written to the CSV file (an int beyond the float range, text the
        file's encoding cannot express): the call raises at the storage layer - after validation, possibly after the
        index was touched.  Memory storage accepts them (nothing to serialise); then nothing is owed."""
        from tinyflux import MeasurementQuery, Point

        from ..common import from_us
        from ..gen import BASE_US

        late = from_us(BASE_US + 10**12)
        good = lambda i: Point(time=from_us(BASE_US + 10**12 + i), measurement="m0", tags={"k": "a"}, fields={"x": i})
        bads = [
            ("int beyond float range", lambda: Point(time=late, fields={"x": 10**400})),
            ("negative int beyond float range", lambda: Point(time=late, fields={"y": -(10**400)})),
            ("lone surrogate in tag value", lambda: Point(time=late, tags={"k": "a\ud800"})),
            ("lone surrogate in tag key", lambda: Point(time=late, tags={"\udfff": "v"})),
            ("lone surrogate in measurement", lambda: Point(time=late, measurement="m\ud83d")),
            ("lone surrogate in field key", lambda: Point(time=late, fields={"x\udc00": 1})),
        ]
        label, mk = self.rng.choice(bads)
        cases = [
            (f"insert({label})", lambda db: db.insert(mk()), 0),
            (f"insert_multiple([good, good, {label}, good])", lambda db: db.insert_multiple([good(1), good(2), mk(), good(3)]), 2),
            (f"insert_multiple(iter [{label}, good])", lambda db: db.insert_multiple(iter([mk(), good(4)])), 0),
            (f"handle.insert({label})", lambda db: db.measurement("m0").insert(mk()), 0),
        ]
        bp = mk()
        if bp.tags and "k" in bp.tags:
            cases.append((f"update(tags={label})", lambda db: db.update(MeasurementQuery().noop(), tags=dict(bp.tags)), None))
        if bp.fields and isinstance(next(iter(bp.fields.values())), int) and abs(next(iter(bp.fields.values()))) > 10**300:
            cases.append((f"update(fields={label})", lambda db: db.update(MeasurementQuery().noop(), fields=dict(bp.fields)), None))
        if bp.measurement != "_default":
            cases.append((f"update(measurement={label})", lambda db: db.update(MeasurementQuery().noop(), measurement=bp.measurement), None))
        self.rng.shuffle(cases)
        for clabel, call, n_good in cases[:3]:
            pre = s.model.copy()
            exc = None
            try:
                call(s.db)
            except Exception as e:  # noqa: BLE001
                exc = e
            fault = f"unserialisable:{clabel}"
            s.log.append({"op": "FAULT", "fault": fault})
            if exc is None:
                self.res.count("unserialisable_accepted_by_storage")
                try:
                    post = s.contents()
                except Exception:
                    return
                if any(c and c[0] == "BAD" for c in post):
                    return
                s.model.points = [MPoint(c[0], c[1], dict(c[2]), dict(c[3])) for c in post]
                continue
            self.res.count("unserialisable_raised")
            expected = list(pre.points)
            if n_good:
                expected += [MPoint(BASE_US + 10**12 + i, "m0", {"k": "a"}, {"x": i}) for i in range(1, n_good + 1)]
            if not self.after_fault(s, fault, exc, expected):
                return
        self.continue_history(s, "unserialisable")

    def fault_unusual_valid_inputs(self, s):
        """Valid but unusual values (instances of str/int/float subclasses, Mapping types other than dict).  They are
        supposed to be accepted; what C11 demands is only: IF the call raises, the database is as it was."""
        import collections
        import enum
        import types

        from tinyflux import MeasurementQuery, Point

        from ..common import from_us
        from ..gen import BASE_US

        class Label(str):
            pass

        class Color(str, enum.Enum):
            RED = "red"

        class Level(enum.IntEnum):
            HIGH = 3

        class Celsius(float):
            pass

        t = from_us(BASE_US + 10**9)
        cases = [
            ("insert(tag value str-subclass)", lambda db: db.insert(Point(time=t, tags={"k": Label("lab")}, fields={"x": 1}))),
            ("insert(tag key str-subclass)", lambda db: db.insert(Point(time=t, tags={Label("lk"): "v"}))),
            ("insert(tag value str-Enum)", lambda db: db.insert(Point(time=t, tags={"k": Color.RED}))),
            ("insert(measurement str-subclass)", lambda db: db.insert(Point(time=t, measurement=Label("m0")))),
            ("insert(field IntEnum)", lambda db: db.insert(Point(time=t, fields={"x": Level.HIGH}))),
            ("insert(field float-subclass)", lambda db: db.insert(Point(time=t, fields={"x": Celsius(21.5)}))),
            ("insert(tags OrderedDict)", lambda db: db.insert(Point(time=t, tags=collections.OrderedDict(k="a")))),
            ("insert_multiple([plain, str-subclass tag])", lambda db: db.insert_multiple([Point(time=t, tags={"k": "a"}), Point(time=t, tags={"k": Label("b")})])),
            ("update(tags={k: str-subclass})", lambda db: db.update(MeasurementQuery().noop(), tags={"k": Label("upd")})),
            ("update(measurement=str-subclass)", lambda db: db.update(MeasurementQuery() == "m0", measurement=Label("m1"))),
            ("handle.insert(field IntEnum)", lambda db: db.measurement("m0").insert(Point(time=t, fields={"y": Level.HIGH}))),
        ]
        for label, call in cases:
            pre = s.model.copy()
            exc = None
            try:
                call(s.db)
            except Exception as e:
                exc = e
            fault = f"unusual_valid_input:{label}"
            s.log.append({"op": "FAULT", "fault": fault})
            if exc is None:
                # accepted, as it should be: adopt what is stored now and go on
                self.res.count("unusual_valid_inputs_accepted")
                post = s.contents()
                if any(c and c[0] == "BAD" for c in post):
                    return
                s.model.points = [MPoint(c[0], c[1], dict(c[2]), dict(c[3])) for c in post]
                continue
            if not self.after_fault(s, fault, exc, list(pre.points)):
                return
        self.continue_history(s, "unusual_valid_input")

    def fault_invalid_arguments(self, s):
        for label, call in invalid_argument_calls():
            exc = None
            try:
                call(s.db)
            except Exception as e:
                exc = e
            fault = f"invalid_argument:{label}"
            s.log.append({"op": "FAULT", "fault": fault})
            if not self.after_fault(s, fault, exc, list(s.model.points)):
                return
        self.continue_history(s, "invalid_argument")

    def fault_read_only(self, s):
        if self.cfg["storage"] != "csv":
            self.res.count("read_only_skipped_memory")
            return
        from tinyflux import Point, TagQuery, TinyFlux

        s.db.close()
        pre_bytes = s.file_bytes()
        with quiet_stdout():
            s.db = TinyFlux(s.path, auto_index=self.cfg["auto_index"], access_mode="r")
        Q = TagQuery().k.exists()
        calls = [
            ("insert", lambda db: db.insert(Point(tags={"a": "b"}))),
            ("insert_multiple", lambda db: db.insert_multiple([Point(), Point()])),
            ("update", lambda db: db.update(Q, tags={"a": "b"})),
            ("update_all", lambda db: db.update_all(fields={"q": 1})),
            ("remove", lambda db: db.remove(Q)),
            ("remove_all", lambda db: db.remove_all()),
            ("drop_measurement", lambda db: db.drop_measurement("m0")),
            ("handle.remove_all", lambda db: db.measurement("m0").remove_all()),
        ]
        for label, call in calls:
            exc = None
            try:
                call(s.db)
            except Exception as e:
                exc = e
            fault = f"read_only:{label}"
            s.log.append({"op": "FAULT", "fault": fault})
            if not self.after_fault(s, fault, exc, list(s.model.points)):
                return
            if s.file_bytes() != pre_bytes:
                self.violate(s, "read-only-write-changed-file", {"fault": fault})
                return
        # reads still work on the read-only handle
        for probe in query_probes(self.rng, s.model, self.prof)[:12]:
            pout = s.do(probe)
            self.res.count("reads_after_fault")
            if not pout.agrees():
                self.violate(s, "later-read-wrong-after-failed-call", dict(describe(s, pout), fault="read_only"))
                return


FAMILIES = ["insert_multiple", "update_callable", "invalid_arguments", "read_only", "raising_predicate", "unusual_valid_inputs", "unserialisable", "any_raising_call"]


def run(res, tier, seed, shard, nshards):
    contracts.install()
    res.rule = (
        "after a seeded prefix history (3-8 ops) one failing call is injected and enumerated exhaustively over its "
        "positions: non-Point / raising generator at every position of insert_multiple (db and handle); update / "
        "update_all whose time/measurement/tags/fields callable raises or returns an invalid value on the i-th selected "
        "point for every i; 23 invalid-argument calls covering every API entry point; 8 writes on a CSV database opened "
        "read-only; after each: contents vs expected, C06 index battery, then 5-10 further ops with query+getter probes "
        "vs the model; 4 configurations; distinct_nontrivial = distinct (fault, configuration, contents) cases"
    )
    with Scratch("c11") as scratch:
        for ci, cfg in enumerate(CONFIGS):
            for h in range(N_HIST[tier]):
                for fi, fam in enumerate(FAMILIES):
                    rng = rng_for("C11", tier, seed, shard, ci, h, fam)
                    FaultRun(res, cfg, scratch, rng).run_one(fam)
    contracts.drain(res)
    for fam in ("insert_multiple", "update_callable", "invalid_argument", "read_only", "raising_predicate"):
        res.require(f"faults.{fam}")
    res.require("update_fault_position.later")
    res.require("index_battery_after_fault")
    res.require("ops_after_fault")
    res.require("reads_after_fault")
    res.require("file_checks_after_fault")
    res.require("unusual_valid_inputs_accepted")
    res.require("unserialisable_raised")
    res.require("history_calls_that_raised")
    res.assumptions += [
        "update callables misbehave in a single slot per call; insert_multiple offenders are non-Point objects or a raising generator",
        "'still usable' is decided on 5-10 further operations and ~24 reads each, compared with the model",
    ]


def replay(res, rep):
    print("replay of C11 re-runs the whole deterministic quick tier; use the seed recorded in evidence")
    run(res, "quick", res.seed, 0, 8)
