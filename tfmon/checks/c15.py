"""C15 - reads and no-op writes change nothing and leave nothing behind.

Events: sha256 + size of the database file, listing of the (private) temp
directory and of the database directory, before and after EVERY op of seeded
histories; access modes r / r+ / a / w+.
Oracle: reads / getters / iteration / reindex / no-match remove / no-change
update / rejected writes (which must raise): bytes identical; for ALL ops: both
directory listings after the call (returned or raised) equal the listings
before (the database file itself apart).
"""
import hashlib
import os

from .. import csvcodec, gen, qast
from ..common import Scratch, quiet_stdout, rng_for
from ..core import Violation
from ..histories import Profile, gen_write_op, getter_probes, query_probes
from ..model import MPoint
from ..session import READ_OPS, Session, cfg_name, default_config

REPLAY_BY_RERUN = True  # workloads are deterministic in (tier, seed, shard): replay re-runs the shard
SHARDS = {"quick": 8, "thorough": 16}
TIMEOUT = {"quick": 1800, "thorough": 7200}
N_HIST = {"quick": 10, "thorough": 150}


def listing(d, skip=None):
    """Names in a directory; for every file but `skip` (the database itself) also its size and content hash, so that
    a bystander file that is rewritten shows as well as one that is removed or created."""
    try:
        names = sorted(os.listdir(d))
    except FileNotFoundError:
        return ["<missing>"]
    out = []
    for n in names:
        if n == skip:
            out.append(n)
            continue
        dg = digest(os.path.join(d, n))
        out.append(n if dg is None else f"{n} [{dg[0]}B {dg[1][:8]}]")
    return out


def digest(path):
    try:
        with open(path, "rb") as f:
            data = f.read()
    except FileNotFoundError:
        return None
    return (len(data), hashlib.sha256(data).hexdigest())


class Watch:
    def __init__(self, s, scratch):
        self.s = s
        self.tmp = scratch.tmp
        self.dbdir = os.path.dirname(s.path)

    def snap(self):
        d = {"file": digest(self.s.path), "tmp": listing(self.tmp), "dbdir": listing(self.dbdir, os.path.basename(self.s.path))}
        if not self.s.cfg.get("flush", True):
            # buffered inserts: rows still pending in the handle's buffer may reach the file during any later call
            d["raw"] = self.s.file_bytes()
        return d


def judge_op(res, s, w, op, before, after, out, must_not_change, label, rejected=False):
    res.evaluations += 1
    cfg = cfg_name(s.cfg)
    opd = op if "q" not in op else dict(op, q=qast.show(op["q"]))
    res.count("listing_checks")
    leaked_tmp = sorted(set(after["tmp"]) - set(before["tmp"]))
    leaked_db = sorted(set(after["dbdir"]) - set(before["dbdir"]))
    gone_db = sorted(set(before["dbdir"]) - set(after["dbdir"]))
    if leaked_tmp or leaked_db or gone_db:
        res.violate(Violation(
            "C15", "operation-left-files-behind" if not gone_db else "operation-removed-files",
            {"config": cfg, "op": opd, "class": label, "raised": None if out.exc is None else type(out.exc).__name__,
             "new_in_temp_dir": leaked_tmp[:4], "new_in_db_dir": leaked_db[:4], "missing_from_db_dir": gone_db[:4]},
            replay={"cfg": s.cfg, "ops": list(s.log)},
            features={"op": op["op"], "class": label, "where": "tmp" if leaked_tmp else "dbdir"},
        ))
        return False
    if must_not_change:
        res.count(f"bytes_unchanged_checks.{label}")
        if "raw" in before and "raw" in after:
            # flush_on_insert=False: earlier inserts may be flushed now - bytes may be appended, nothing else
            res.count("bytes_only_appended_checks.buffered")
            changed = not after["raw"].startswith(before["raw"])
            before = dict(before, raw=len(before["raw"]))
            after = dict(after, raw=len(after["raw"]))
        else:
            changed = before["file"] != after["file"]
        if changed:
            res.violate(Violation(
                "C15", "no-op-changed-database-file",
                {"config": cfg, "op": opd, "class": label, "before": before["file"], "after": after["file"],
                 "raised": None if out.exc is None else type(out.exc).__name__},
                replay={"cfg": s.cfg, "ops": list(s.log)}, features={"op": op["op"], "class": label},
            ))
            return False
    if rejected:
        res.count("rejected_write_checks")
        if out.exc is None:
            res.violate(Violation(
                "C15", "write-on-read-only-database-did-not-raise",
                {"config": cfg, "op": opd, "access_mode": s.cfg.get("access_mode")},
                replay={"cfg": s.cfg, "ops": list(s.log)}, features={"op": op["op"]},
            ))
            return False
    return True


class _Boom(RuntimeError):
    pass


def _boom(_):
    raise _Boom("user callable failed")


def raising_calls():
    """(label, callable(db)) pairs that raise: user callables, invalid arguments, bad elements."""
    from tinyflux import MeasurementQuery, Point, TagQuery

    ALL = MeasurementQuery().noop()
    Q = TagQuery().k.exists()
    return [
        ("update(tags=raising callable)", lambda db: db.update(ALL, tags=_boom)),
        ("update(time=raising callable)", lambda db: db.update(ALL, time=_boom)),
        ("update_all(fields=raising callable)", lambda db: db.update_all(fields=_boom)),
        ("update(fields=callable returning invalid)", lambda db: db.update(ALL, fields=lambda f: {"x": "not a number"})),
        ("update(measurement=callable returning invalid)", lambda db: db.update(ALL, measurement=lambda m: 5)),
        ("handle.update(tags=raising callable)", lambda db: db.measurement("m0").update(ALL, tags=_boom)),
        ("handle.update_all(tags=raising callable)", lambda db: db.measurement("m0").update_all(tags=_boom)),
        ("update(nothing to do)", lambda db: db.update(Q)),
        ("update_all(nothing to do)", lambda db: db.update_all()),
        ("update(time=5)", lambda db: db.update(Q, time=5)),
        ("update(unset_tags=5)", lambda db: db.update(Q, unset_tags=5)),
        ("update(non-query)", lambda db: db.update(123, tags={"a": "b"})),
        ("remove(non-query)", lambda db: db.remove("x")),
        ("remove(raising test predicate)", lambda db: db.remove(TagQuery().k.test(_boom))),
        ("drop_measurement(unhashable)", lambda db: db.drop_measurement(["m0"])),
        ("insert_multiple([p, junk])", lambda db: db.insert_multiple([Point(), "junk"]) if False else db.insert_multiple(["junk"])),
        ("insert(non-point)", lambda db: db.insert("junk")),
        ("search(non-query)", lambda db: db.search(5)),
        ("select(bad key)", lambda db: db.select("nonsense", Q)),
    ]


def run_history(res, cfg, scratch, rng):
    s = Session(cfg, scratch)
    w = Watch(s, scratch)
    prof = Profile(reopen=0)
    prof.allow_no_time = False
    prof.getter_probes = True
    try:
        with quiet_stdout():
            held = []
            for step in range(rng.randint(5, 14)):
                op = gen_write_op(rng, s.model, prof)
                pre_model = s.model.copy()
                if rng.random() < 0.15 and s.model.points:
                    # an iteration that was started and is kept unfinished while other operations run: starting it is
                    # a read like any other (nothing appears next to the database, whatever happens to it later)
                    b0 = w.snap()
                    it = iter(s.db.measurement(rng.choice(prof.meas)) if rng.random() < 0.3 else s.db)
                    try:
                        next(it)
                    except Exception:  # noqa: BLE001
                        pass
                    held.append(it)
                    a0 = w.snap()
                    res.count("unfinished_iterations_held")
                    fake = type("O", (), {"exc": None})()
                    if not judge_op(res, s, w, {"op": "iter-started-and-kept"}, b0, a0, fake, True, "read"):
                        return
                before = w.snap()
                out = s.do(op)
                after = w.snap()
                res.count(f"ops.{op['op']}")
                # state by an independent reader of the file: a peek through the database's own handle would move
                # its cursor and flush its buffer, and thereby hide what a stale cursor does to the next call
                try:
                    post = [p.canon() for p in csvcodec.decode_file(s.path, None, {})]
                except csvcodec.DecodeError as e:
                    post = [("BAD", str(e))]
                if not cfg.get("flush", True) and out.exc is None:
                    post = [p.canon() for p in s.model.points]  # buffered rows are not in the file yet: trust the model here
                if out.exc is not None or post != [p.canon() for p in s.model.points]:
                    res.count("op_itself_misbehaved")
                    if any(x and x[0] == "BAD" for x in post):
                        return
                    s.model.points = [MPoint(x[0], x[1], dict(x[2]), dict(x[3])) for x in post]
                    noop = False
                else:
                    noop = (op["op"] in ("update", "update_all", "remove", "drop_measurement", "reindex")
                            and pre_model.digest() == s.model.digest()
                            and (out.real == 0 or op["op"] == "reindex"))
                    if op["op"] == "insert_multiple" and not op["ps"]:
                        noop = True
                res.seen((cfg_name(cfg), op["op"], noop, pre_model.digest()))
                label = "noop-write" if noop else "write"
                if len(res.samples) < 3 and (noop or op["op"] in ("update", "remove")):
                    res.sample({"config": cfg_name(cfg), "op": op if "q" not in op else dict(op, q=qast.show(op["q"])), "class": label,
                                "file_before": before["file"], "file_after": after["file"], "temp_dir": after["tmp"], "db_dir": after["dbdir"]})
                if not judge_op(res, s, w, op, before, after, out, noop, label):
                    return
                # no-op writes issued directly after this op (no read in between)
                if rng.random() < 0.5:
                    for nop in rng.sample([
                        {"op": "insert_multiple", "ps": []},
                        {"op": "remove", "q": ("cmp", "tags", ("nokey",), "==", "zz")},
                        {"op": "update", "q": ("noop", "measurement"), "args": {"unset_tags": "no-such-key"}},
                        {"op": "drop_measurement", "name": "never-a-measurement"},
                        {"op": "reindex"},
                        {"op": "update", "q": ("cmp", "tags", ("nokey",), "==", "zz"), "args": {"tags": {"static": {"a": "b"}}}},
                    ], 2):
                        before = w.snap()
                        nout = s.do(nop)
                        after = w.snap()
                        res.count("noop_writes_directly_after_an_op")
                        if not judge_op(res, s, w, nop, before, after, nout, True, "noop-write"):
                            return
                # operations that raise must not leave anything behind either, nor change the file
                if rng.random() < 0.35:
                    for label_, call in rng.sample(raising_calls(), 3):
                        before = w.snap()
                        exc = None
                        try:
                            call(s.db)
                        except Exception as e:  # noqa: BLE001
                            exc = e
                        after = w.snap()
                        res.count("raising_calls")
                        fake = type("O", (), {"exc": exc})()
                        fop = {"op": "raising-call", "call": label_}
                        if exc is None:
                            res.count("raising_call_did_not_raise")
                            continue
                        res.count(f"raising.{label_}")
                        res.count("listing_checks_after_raising_call")
                        if not judge_op(res, s, w, fop, before, after, fake, False, "raised"):
                            return
                # reads (not after every op: a write directly following a rewrite sees the handle as the rewrite left it)
                if rng.random() < 0.4:
                    res.count("steps_without_reads")
                    continue
                probes = query_probes(rng, s.model, prof)[:10] + getter_probes(rng, s.model, prof)[:12]
                for p in probes:
                    before = w.snap()
                    out = s.do(p)
                    after = w.snap()
                    if not judge_op(res, s, w, p, before, after, out, True, "read"):
                        return
        res.count("histories")
    finally:
        s.discard()


def run_modes(res, scratch, rng):
    """Access modes r / r+ / a / w+ on an existing database."""
    from tinyflux import Point, TagQuery, TinyFlux

    base_cfg = default_config("csv", True)
    s0 = Session(base_cfg, scratch)
    try:
        with quiet_stdout():
            for _ in range(5):
                s0.do({"op": "insert", "p": gen.gen_point(rng, gen.MEAS, False)})
            s0.db.close()
            for mode in ("r", "r+", "a", "w+"):
                cfg = default_config("csv", rng.random() < 0.5 and mode != "a", access_mode=mode)
                s = Session(cfg, scratch, path=s0.path) if mode != "w+" else Session(cfg, scratch)
                w = Watch(s, scratch)
                res.count(f"mode.{mode}")
                if mode != "w+":
                    s.model = s0.model.copy()
                prof = Profile()
                writes = [
                    {"op": "insert", "p": gen.gen_point(rng, gen.MEAS, False)},
                    {"op": "update", "q": ("noop", "measurement"), "args": {"tags": {"static": {"zz": "1"}}}},
                    {"op": "remove", "q": ("noop", "measurement")},
                    {"op": "remove_all"},
                    {"op": "drop_measurement", "name": "m0"},
                    {"op": "drop_measurement", "name": "never-a-measurement"},
                    {"op": "remove_all", "via": "h", "m": "never-a-measurement"},
                    {"op": "remove", "via": "h", "m": "never-a-measurement", "q": ("noop", "measurement")},
                    {"op": "update", "via": "h", "m": "never-a-measurement", "q": ("noop", "measurement"), "args": {"tags": {"static": {"zz": "1"}}}},
                    {"op": "update_all", "via": "h", "m": "m0", "args": {"tags": {"static": {"zz": "1"}}}},
                    {"op": "remove", "q": ("cmp", "tags", ("nokey",), "==", "zz")},
                    {"op": "insert_multiple", "ps": []},
                    {"op": "insert", "via": "h", "m": "m0", "p": gen.gen_point(rng, gen.MEAS, False)},
                ]
                reads = query_probes(rng, s.model, prof)[:6] + getter_probes(rng, s.model, prof)[:8]
                if mode == "r":
                    for p in reads:
                        b = w.snap()
                        out = s.do(p)
                        a = w.snap()
                        if not judge_op(res, s, w, p, b, a, out, True, "read"):
                            break
                    for op in writes:
                        b = w.snap()
                        out = s.do(op)
                        a = w.snap()
                        if not judge_op(res, s, w, op, b, a, out, True, "rejected-write", rejected=True):
                            break
                elif mode == "a":
                    # append-only handle: inserts are allowed, everything else must raise and change nothing
                    for op in [o for o in writes if o["op"] not in ("insert", "insert_multiple")]:
                        b = w.snap()
                        out = s.do(op)
                        a = w.snap()
                        if not judge_op(res, s, w, op, b, a, out, True, "rejected-write", rejected=True):
                            break
                else:
                    for p in reads:
                        b = w.snap()
                        out = s.do(p)
                        a = w.snap()
                        if not judge_op(res, s, w, p, b, a, out, True, "read"):
                            break
                s.close()
                if mode == "w+":
                    s.discard()
    finally:
        s0.discard()


def run_io_fault_leftovers(res, scratch, rng, tier):
    """An operation that raises because the OS failed one of its I/O calls must not leave temporary files behind
    either (the property says: once it has returned or raised)."""
    import errno

    from .. import ioproxy
    from . import c13

    cfg = default_config("csv", rng.random() < 0.5)
    s = Session(cfg, scratch)
    prof = Profile(reindex=0, reopen=0)
    prof.allow_no_time = False
    try:
        with quiet_stdout():
            for _ in range(rng.randint(4, 8)):
                s.do({"op": "insert", "p": gen.gen_point(rng, gen.MEAS, False)})
            for step in range(4):
                op = gen_write_op(rng, s.model, prof)
                if op["op"] in ("update", "update_all", "remove", "drop_measurement"):
                    dry = s.clone()
                    rec = ioproxy.Recorder()
                    try:
                        c13.run_with_monitor(dry, op, rec)
                    finally:
                        dry.discard()
                    n = len(rec.events)
                    ks = sorted(set(range(max(0, n - 14), n)) | set(rng.sample(range(n), min(n, 4)))) if n else []
                    for k in ks:
                        ev = rec.events[k]
                        if ev.kind == "unlink":
                            # the OS refusing the removal of the temporary file itself necessarily leaves it behind
                            res.count("io_fault_at_unlink_not_injected")
                            continue
                        for when in (["before", "after"] if ev.kind in c13.AFTER_EFFECT else ["before"]):
                            t = s.clone()
                            try:
                                w = Watch(t, scratch)
                                before = w.snap()
                                mon = c13.FaultAt(k, when, rng.choice([errno.ENOSPC, errno.EIO, errno.EACCES]))
                                out = c13.run_with_monitor(t, op, mon)
                                after = w.snap()
                                if mon.hit is None or out.exc is None:
                                    continue
                                res.evaluations += 1
                                res.count("io_fault_leftover_checks")
                                res.count(f"io_fault_at.{ev.target}.{ev.kind}")
                                me = os.path.basename(t.path)
                                new_db = sorted(set(after["dbdir"]) - set(before["dbdir"]) - {me})
                                new_tmp = sorted(set(after["tmp"]) - set(before["tmp"]))
                                if new_db or new_tmp:
                                    res.violate(Violation(
                                        "C15", "operation-left-files-behind",
                                        {"config": cfg_name(cfg), "op": op if "q" not in op else dict(op, q=qast.show(op["q"])),
                                         "class": "raised-after-io-error", "fault": f"{when}:{ev!r}", "raised": type(out.exc).__name__,
                                         "new_in_temp_dir": new_tmp[:4], "new_in_db_dir": new_db[:4]},
                                        replay={"cfg": cfg, "ops": list(t.log), "fault": f"{when}@{k}"},
                                        features={"op": op["op"], "class": "raised-after-io-error", "where": "tmp" if new_tmp else "dbdir"},
                                    ))
                                    return
                            finally:
                                t.discard()
                s.do(op)
    finally:
        s.discard()


def run_vanished_file(res, scratch, rng):
    """The database file is unlinked by someone else while the database is open: whatever the calls then do
    (return or raise), they must not leave temporary files behind."""
    from tinyflux import MeasurementQuery, TagQuery

    for auto in (True, False):
        cfg = default_config("csv", auto)
        s = Session(cfg, scratch)
        w = Watch(s, scratch)
        try:
            with quiet_stdout():
                for _ in range(4):
                    s.do({"op": "insert", "p": gen.gen_point(rng, gen.MEAS, False)})
                calls = [
                    ("update", lambda db: db.update(MeasurementQuery().noop(), tags={"zz": "1"})),
                    ("remove(no match)", lambda db: db.remove(TagQuery().nokey == "zz")),
                    ("remove", lambda db: db.remove(MeasurementQuery() == "m0")),
                    ("drop_measurement", lambda db: db.drop_measurement("m1")),
                    ("count", lambda db: db.count(MeasurementQuery().noop())),
                ]
                for label_, call in calls:
                    try:
                        os.unlink(s.path)
                    except FileNotFoundError:
                        pass
                    before = w.snap()
                    exc = None
                    try:
                        call(s.db)
                    except Exception as e:  # noqa: BLE001
                        exc = e
                    after = w.snap()
                    res.evaluations += 1
                    res.count("vanished_file_calls")
                    me = os.path.basename(s.path)
                    new_db = sorted(set(after["dbdir"]) - set(before["dbdir"]) - {me})
                    new_tmp = sorted(set(after["tmp"]) - set(before["tmp"]))
                    if new_db or new_tmp:
                        res.violate(Violation(
                            "C15", "operation-left-files-behind",
                            {"config": cfg_name(cfg), "op": {"op": "call on a database whose file was unlinked", "call": label_},
                             "class": "vanished-file", "raised": None if exc is None else type(exc).__name__,
                             "new_in_temp_dir": new_tmp[:4], "new_in_db_dir": new_db[:4]},
                            replay={"cfg": cfg, "ops": list(s.log), "call": label_},
                            features={"op": label_, "class": "vanished-file", "where": "tmp" if new_tmp else "dbdir"},
                        ))
                        return
        finally:
            s.discard()


def run_open_is_a_read(res, scratch, rng):
    """Opening a database (which reindexes) and reading from it are reads: the file keeps its bytes from before the
    constructor call until after close().  Files as the library wrote them, and the same rows as another CSV writer
    would have left them (last row without a line terminator, LF instead of CRLF row ends)."""
    from tinyflux import FieldQuery, MeasurementQuery, TagQuery, TinyFlux

    base = Session(default_config("csv", True), scratch)
    try:
        with quiet_stdout():
            for _ in range(rng.randint(1, 5)):
                base.do({"op": "insert", "p": gen.gen_point(rng, gen.MEAS, False)})
            base.db.close()
        raw = base.file_bytes()
        variants = {"as written": raw}
        if raw.endswith(b"\r\n"):
            variants["last row unterminated"] = raw[:-2]
            if b"\n" not in raw.replace(b"\r\n", b""):
                variants["LF row ends"] = raw.replace(b"\r\n", b"\n")
        for vname, data in variants.items():
            for mode in ("r+", "r"):
                for auto in (True, False):
                    path = scratch.new_db_path()
                    try:
                        with open(path, "wb") as f:
                            f.write(data)
                        d = os.path.dirname(path)
                        before = (digest(path), listing(d), listing(scratch.tmp))
                        exc = None
                        with quiet_stdout():
                            try:
                                db = TinyFlux(path, auto_index=auto, access_mode=mode)
                                try:
                                    n = len(db.all())
                                    db.count(FieldQuery().x > 0)
                                    db.get_measurements()
                                    db.get_tag_values()
                                    list(iter(db))
                                    db.reindex()
                                    if mode == "r+":
                                        db.remove(TagQuery().nokey == "zz")
                                        db.update(TagQuery().nokey == "zz", tags={"zz": "1"})
                                        db.drop_measurement("never-a-measurement")
                                    db.search(MeasurementQuery() == "m0")
                                finally:
                                    db.close()
                            except Exception as e:  # noqa: BLE001
                                exc = e
                        after = (digest(path), listing(d), listing(scratch.tmp))
                        res.evaluations += 1
                        res.count("open_read_close_sessions")
                        res.count(f"open_read_close.{vname}")
                        res.seen(("open-is-a-read", vname, mode, auto, len(data)))
                        if after != before:
                            res.violate(Violation(
                                "C15", "opening-or-reading-changed-the-file",
                                {"file_variant": vname, "access_mode": mode, "auto_index": auto, "raised": None if exc is None else f"{type(exc).__name__}: {exc}"[:120],
                                 "bytes_before": before[0][0], "bytes_after": after[0][0], "dir_before": before[1], "dir_after": after[1]},
                                replay={"variant": vname, "mode": mode, "auto_index": auto, "file_hex": data.hex()[:4000]},
                                features={"class": "open", "variant": vname, "mode": mode},
                            ))
                            return
                    finally:
                        scratch.drop_db_dir(path)
    finally:
        base.discard()


def run_closed(res, scratch, rng):
    """Reads and no-op writes on a database object that has been close()d (every access mode): whether they raise or
    answer, the file keeps its bytes and nothing is left behind."""
    from tinyflux import FieldQuery, MeasurementQuery, TagQuery

    for mode in ("r+", "w+", "r", "a"):
        for auto in ((True, False) if mode != "a" else (False,)):
            base = Session(default_config("csv", True, access_mode="w+" if mode == "w+" else "r+"), scratch)
            try:
                with quiet_stdout():
                    for _ in range(4):
                        base.do({"op": "insert", "p": gen.gen_point(rng, gen.MEAS, False)})
                    if mode == "w+":
                        s = base
                    else:
                        base.db.close()
                        s = Session(default_config("csv", auto, access_mode=mode), scratch, path=base.path)
                    w = Watch(s, scratch)
                    how = rng.choice(["close", "with"])
                    if how == "close":
                        s.db.close()
                    else:
                        with s.db:
                            pass
                    calls = [
                        ("all", lambda db: db.all()), ("iter", lambda db: list(iter(db))), ("len", lambda db: len(db)),
                        ("search", lambda db: db.search(TagQuery().k == "a")), ("count", lambda db: db.count(FieldQuery().x > 0)),
                        ("get", lambda db: db.get(MeasurementQuery() == "m0")), ("contains", lambda db: db.contains(TagQuery().k.exists())),
                        ("select", lambda db: db.select("tags.k", MeasurementQuery().noop())),
                        ("get_measurements", lambda db: db.get_measurements()), ("get_tag_values", lambda db: db.get_tag_values()),
                        ("get_field_values", lambda db: db.get_field_values("x")), ("get_timestamps", lambda db: db.get_timestamps()),
                        ("handle.all", lambda db: db.measurement("m0").all()), ("handle.len", lambda db: len(db.measurement("m0"))),
                        ("reindex", lambda db: db.reindex()),
                        ("insert_multiple([])", lambda db: db.insert_multiple([])),
                        ("remove(no match)", lambda db: db.remove(TagQuery().nokey == "zz")),
                        ("update(no match)", lambda db: db.update(TagQuery().nokey == "zz", tags={"zz": "1"})),
                        ("drop_measurement(absent)", lambda db: db.drop_measurement("never-a-measurement")),
                        ("handle.remove_all(absent)", lambda db: db.measurement("never-a-measurement").remove_all()),
                        ("close again", lambda db: db.close()),
                    ]
                    rng.shuffle(calls)
                    for label_, call in calls:
                        before = w.snap()
                        exc = None
                        try:
                            call(s.db)
                        except Exception as e:  # noqa: BLE001
                            exc = e
                        after = w.snap()
                        res.evaluations += 1
                        res.count("calls_on_closed_database")
                        res.count("calls_on_closed_database.raised" if exc is not None else "calls_on_closed_database.answered")
                        res.seen(("closed", mode, auto, label_))
                        if after != before:
                            res.violate(Violation(
                                "C15", "call-on-closed-database-changed-files",
                                {"config": cfg_name(s.cfg), "closed_by": how, "call": label_, "raised": None if exc is None else f"{type(exc).__name__}: {exc}"[:120],
                                 "before": {k: (v if k != "digest" else v) for k, v in before.items()}, "after": after},
                                replay={"cfg": s.cfg, "ops": list(s.log), "call": label_},
                                features={"op": label_, "class": "closed", "mode": mode},
                            ))
                            return
            finally:
                base.discard()


def run(res, tier, seed, shard, nshards):
    res.rule = (
        "seeded histories on CSV databases (auto_index on/off) with a private temp directory; before and after EVERY op "
        "(mutating ops, ~10 query reads and ~12 getters per step) the sha256 of the database file and the listings of the "
        "temp directory and the database directory are taken; plus databases opened with access modes r / r+ / a / w+ "
        "where rejected writes must raise; distinct_nontrivial = distinct (configuration, op kind, no-op?, contents) cases"
    )
    with Scratch("c15") as scratch:
        for ci, cfg in enumerate([default_config("csv", True), default_config("csv", False), default_config("csv", True, flush=False), default_config("csv", False, flush=False)]):
            for h in range(N_HIST[tier]):
                rng = rng_for("C15", tier, seed, shard, ci, h)
                run_history(res, cfg, scratch, rng)
        for h in range(max(2, N_HIST[tier] // 3)):
            run_modes(res, scratch, rng_for("C15", tier, seed, shard, "modes", h))
        for h in range(2 if tier == "quick" else 12):
            run_vanished_file(res, scratch, rng_for("C15", tier, seed, shard, "vanished", h))
        for h in range(2 if tier == "quick" else 20):
            run_open_is_a_read(res, scratch, rng_for("C15", tier, seed, shard, "open", h))
        for h in range(1 if tier == "quick" else 10):
            run_closed(res, scratch, rng_for("C15", tier, seed, shard, "closed", h))
        for h in range(2 if tier == "quick" else 20):
            run_io_fault_leftovers(res, scratch, rng_for("C15", tier, seed, shard, "iofault", h), tier)
    for k in ("read", "noop-write", "rejected-write"):
        res.require(f"bytes_unchanged_checks.{k}")
    res.require("listing_checks_after_raising_call")
    res.require("vanished_file_calls")
    res.require("calls_on_closed_database")
    res.require("unfinished_iterations_held")
    res.require("bytes_only_appended_checks.buffered")
    res.require("open_read_close.as written")
    res.require("open_read_close.last row unterminated")
    res.require("io_fault_leftover_checks")
    res.require("listing_checks")
    res.require("rejected_write_checks")
    for m in ("r", "r+", "a", "w+"):
        res.require(f"mode.{m}")
    res.assumptions += [
        "tempfile.tempdir points into a directory only this run uses, so other processes' temp files cannot look like leaks",
        "'unchanged' is decided on file bytes (sha256 + size), not on mtime",
    ]


def replay(res, rep):
    print("C15 replay: the replay file holds the configuration and op log; re-run ./check C15 with the evidence seed")
