"""C02 - remove deletes exactly the matching points and nothing else.

Monitors: (1) return value of remove/drop_measurement/Measurement.remove(_all)
equals the number the model removes; (2) the survivors right after the call are
the model's survivors in the same relative order; (3) a removal that matches
nothing leaves contents and (CSV) file bytes unchanged; (4) every later read is
compared with the model, and a difference is attributed to the removal only if
a history-free twin holding the same contents answers correctly and nothing
differed before the first removal (otherwise it is some other property's
business and only counted).
"""
from .. import gen, contracts, mutjudge, qast
from ..common import Scratch, rng_for
from ..core import Violation
from ..histories import HistoryRunner, Profile, describe, replay_of, replay_ops
from ..session import READ_OPS, Session, cfg_name, default_config

SHARDS = {"quick": 8, "thorough": 16}
TIMEOUT = {"quick": 1800, "thorough": 7200}
N_HIST = {"quick": 30, "thorough": 300}
REMOVALS = ("remove", "remove_all", "drop_measurement")

CONFIGS = [
    default_config("mem", True), default_config("mem", False),
    default_config("csv", True), default_config("csv", False),
]


def make_judge(res):
    return mutjudge.make_judge(
        res, "C02", REMOVALS, "removal",
        returns_count=lambda op: op["op"] != "remove_all" or op.get("via") == "h",
    )


def profile(h=0):
    p = Profile(update=0, update_all=0, remove=40, remove_all=3, drop_measurement=8, insert=30, insert_multiple=6, reindex=6, reopen=4)
    p.getter_probes = True
    p.n_random_probes = 3
    if h % 4 == 2:  # keys that look like the CSV prefixes, contain blanks or dots
        p.extra_tag_keys = ["a b", "_tag_q", "t_q", "f_q"]
        p.extra_field_keys = ["f_q", "x.y", "_field_q", "t_q"]
    if h % 20 == 9:  # hundreds of rows: thresholds far beyond a dozen rows, long index arrays, many matches
        p.max_rows = 700
        p.max_time_probes = 30
        p.min_ops, p.max_ops = 3, 7
    if h % 20 == 13:  # many measurements (prefixes of each other, differing in case / trailing blank), many tag keys and values
        p.meas = ["m0", "m1", "_default", "m", "m00", "M0", "m0 ", "a", "a/b", "None", "k", "x", "1", "measurement", "m1x",
                  "m*", "m?", "m[01]", "rate[5m]", "rate5", ".*", "m.", "%", "m\\d"]  # names that are patterns in some syntax
        p.extra_tag_keys = [f"key{i}" for i in range(14)]
        p.extra_tag_vals = [f"v{i}" for i in range(25)] + ["12", "1.5", "x" * 300]
    if h % 10 == 8:  # strings that are different but equal under some unicode normalisation / folding (NFC, NFKC, casefold)
        p.meas = ["m0", "caf\u00e9", "cafe\u0301", "m2", "m\u00b2", "cpu", "\uff43\uff50\uff55", "stra\u00dfe", "strasse"]
        p.extra_tag_vals = ["m0", "caf\u00e9", "cafe\u0301", "m2", "m\u00b2", "cpu", "\uff43\uff50\uff55", "stra\u00dfe", "strasse"][1:]
    if h % 10 == 6:  # a few measurement names that are patterns in some syntax, next to names they would match
        p.meas = ["m0", "m1", "m*", "m?", "m[01]", "rate[5m]", "rate5", "m."]
    if h % 20 == 17:  # instants at and around the epoch (timestamp 0.0, negative timestamps) and year 1900
        p.grid = gen.EPOCH_GRID
    if h % 100 == 49:  # thousands of rows (thorough tier only reaches h = 49): chunk sizes 500 / 1000 / 1024 / 2048
        p.max_rows = 3000
        p.max_time_probes = 20
        p.min_ops, p.max_ops = 2, 4
    if h % 20 == 7:  # stored instants later than the wall clock (year 2200) next to points stamped at insertion
        p.grid = gen.FUTURE_GRID
    if h % 4 == 3:  # writes directly follow writes; CSV state is read from the file, not through the handle
        p.no_handle_peeks = True
    if h % 8 == 5:
        p.max_rows = 45
        p.max_time_probes = 30
        p.min_ops, p.max_ops = 4, 10
    return p


def _with_big_ints(p, cfg, h):
    """Memory storage keeps ints exactly: integers beyond 2**53 (CSV stores numbers as floats - a listed C05 finding)."""
    if cfg["storage"] == "mem" and h % 5 == 1:
        p.extra_field_vals = [2**53, 2**53 + 1, -(2**53) - 1, 10**17 + 3]
    return p


def _wild(p, h, rng, res, cfg=None):
    """Every fifth history draws its names, keys and values from the pool of awkward strings and numbers."""
    if h % 5 == 4 and p.max_rows <= 45 and len(p.meas) <= 8:
        gen.make_wild(p, rng, cfg)
        res.count("histories_wild_vocabulary")
    return p


def _cfg_variant(cfg, h):
    """Non-default storage options, each on its own residue class of the history number, so that they also occur in
    pairs (buffered inserts + "w+", a dialect + an encoding, ...)."""
    if cfg["storage"] != "csv":
        return cfg
    import csv as _csv

    out = dict(cfg)
    if h % 11 == 5:
        out["access_mode"] = "w+"  # a database created with "w+" and then used for everything
    if h % 13 == 8 or h % 17 == 3:
        out["encoding"] = "latin-1"  # every file the storage opens must be opened with it, scratch files included
    if h % 3 == 0:
        out["flush"] = False  # reads go through the same buffered handle
    if h % 7 == 4 or h % 10 == 9:
        out["csv"] = [{"delimiter": ";"}, {"quotechar": "'", "quoting": _csv.QUOTE_ALL}, {"delimiter": "\t", "lineterminator": "\n"}][h % 3]
    return out


def run(res, tier, seed, shard, nshards):
    contracts.install()
    res.rule = (
        "seeded histories of inserts and removals (remove by targeted/negated/compound/field/time queries with and "
        "without measurement filter, through db and handle; drop_measurement; remove_all; reindex; reopen) in 4 "
        "configurations; after each op the stored contents and a battery of query + getter reads are compared with "
        "the model; distinct_nontrivial = distinct (contents before, query shape, filter, serving path) removal cases"
    )
    judge = make_judge(res)
    with Scratch("c02") as scratch:
        for ci, cfg in enumerate(CONFIGS):
            for h in range(N_HIST[tier]):
                rng = rng_for("C02", tier, seed, shard, ci, h)
                cfgv = _cfg_variant(cfg, h)
                prof = _wild(_with_big_ints(profile(h), cfg, h), h, rng, res, cfgv)
                if cfgv.get("encoding"):
                    # text the configured encoding can express and ASCII cannot
                    prof.extra_tag_vals = list(prof.extra_tag_vals) + ["\u00e9t\u00e9", "\u00fc", "\u00a3"]
                    prof.extra_meas = list(prof.extra_meas) + ["m\u00e9t\u00e9o"]
                    res.count("histories_non_default_encoding")
                s = NoMatchRunner(res, cfgv, scratch, rng, prof, judge).run()
                if h == 0 and shard == 0 and ci in (1, 2):
                    res.sample({"config": cfg_name(cfg), "first_ops": s.log[:5]})
    for b in contracts.drain(res):
        res.violate(Violation("C02", "find-helper-contract", {"what": b}, replay={"what": list(b)}))
    for cfg in CONFIGS:
        if tier == "thorough" or cfg["auto_index"]:
            res.require(f"removals.remove.index.{cfg_name(cfg)}")
    res.require("removals.remove.scan.mem/noai")
    res.require("removals.remove.scan.csv/noai")
    res.require("removal.selects_some")
    res.require("removal.selects_none")
    res.require("removal.selects_all")
    res.require("later_reads")
    res.require("histories_big")
    res.require("nomatch_bytes_checked")
    res.assumptions += [
        "histories contain no updates, so a read that differs from the model after a removal (while a history-free twin "
        "agrees and nothing differed before) is attributed to the removal",
        "<= 12 rows, query depth <= 3, process TZ = UTC",
    ]


class NoMatchRunner(HistoryRunner):
    def _write(self, s, op):
        is_rm = op["op"] in REMOVALS
        pre_bytes = s.file_bytes() if is_rm else None
        pre_model = s.model.copy() if is_rm else None
        ok = HistoryRunner._write(self, s, op)
        if is_rm and ok and pre_model is not None and pre_model.digest() == s.model.digest():
            # the model says this removal matched nothing
            if s.path and not s.cfg.get("flush", True) and self.no_handle_peeks:
                # rows of earlier inserts may still sit in the handle's buffer: their reaching the file now is not a
                # change made by the removal (the contents are compared by the state / read checks)
                self.res.count("nomatch_bytes_not_compared_buffered_rows_pending")
            elif s.path:
                self.res.count("nomatch_bytes_checked")
                post = s.file_bytes()
                if post != pre_bytes:
                    self.res.violate(Violation(
                        "C02", "no-match-removal-changed-file",
                        {"config": cfg_name(s.cfg), "op": op if "q" not in op else dict(op, q=qast.show(op["q"])),
                         "bytes_before": len(pre_bytes), "bytes_after": len(post)},
                        replay=replay_of(s), features={"cfg": cfg_name(s.cfg)},
                    ))
            else:
                self.res.count("nomatch_mem_checked")
        return ok


def replay(res, rep):
    r = rep["replay"]
    with Scratch("c02r") as scratch:
        replay_ops(res, r["cfg"], r["ops"], scratch, make_judge(res), NoMatchRunner)
