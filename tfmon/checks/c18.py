"""C18 - sorted-list search helpers return the documented boundary positions.

(a) direct: all sorted lists of length 0..7 over a 5 value domain x 11 probes
    (exhaustive) + random float lists, oracle = linear scan definition;
(b) in situ: icontract postconditions on the same functions while real index
    time searches run through a TinyFlux database.
"""
import itertools

from .. import contracts
from ..common import Scratch, rng_for
from ..core import Violation

NAMES = ("find_eq", "find_lt", "find_le", "find_gt", "find_ge")
DOMAIN = (1, 2, 3, 4, 5)
PROBES = (0, 1, 1.5, 2, 2.5, 3, 3.5, 4, 4.5, 5, 6)


def _check_one(res, fns, lst, x, origin):
    for name in NAMES:
        res.evaluations += 1
        want = contracts.ref_find(name, lst, x)
        try:
            got = fns[name](list(lst), x)
        except contracts.ContractBroken:
            got = "contract-broken"
        except Exception as e:  # helpers never raise on valid input
            got = f"raised {type(e).__name__}"
        if got != want or not (got is None or type(got) is int):
            res.violate(Violation(
                "C18", f"{name}-wrong-position",
                {"list": list(lst), "probe": x, "expected": want, "observed": got, "origin": origin},
                replay={"list": list(lst), "probe": x, "fn": name},
            ))
        res.count(f"direct.{name}")
        if want is not None:
            res.count("direct.found")
        else:
            res.count("direct.none")


def _check_single(res, fns, name, lst, x, origin):
    """One helper call on the caller's own list object (not a copy)."""
    res.evaluations += 1
    want = contracts.ref_find(name, lst, x)
    try:
        got = fns[name](lst, x)
    except contracts.ContractBroken:
        got = "contract-broken"
    except Exception as e:  # helpers never raise on valid input
        got = f"raised {type(e).__name__}"
    res.count("direct.in_sequence")
    if got != want or not (got is None or type(got) is int):
        res.violate(Violation(
            "C18", f"{name}-wrong-position",
            {"list": list(lst), "probe": x, "expected": want, "observed": got, "origin": origin, "note": "one of a sequence of calls on the same list object"},
            replay={"list": list(lst), "probe": x, "fn": name},
        ))


def run(res, tier, seed, shard, nshards):
    import tinyflux.utils as tutils

    res.rule = (
        "exhaustive: every non-decreasing list of length 0-7 over {1..5} x 11 probes "
        "(inside/between/outside) x 5 helpers; plus seeded random float lists with duplicates; "
        "distinct = distinct (list, probe) pairs with a non-empty list; in-situ: icontract "
        "postconditions evaluated during real index time searches"
    )
    raw = {n: getattr(tutils, n) for n in NAMES}
    # (a) exhaustive
    nlists = 0
    for n in range(0, 8):
        for lst in itertools.combinations_with_replacement(DOMAIN, n):
            nlists += 1
            for x in PROBES:
                _check_one(res, raw, lst, x, "exhaustive")
                if n:
                    res.seen((lst, x))
            if nlists in (5, 300, 700):
                res.sample({"list": list(lst), "probes": list(PROBES)})
    res.counters["exhaustive_lists"] = nlists
    res.exhaustive = True
    # random float lists
    rng = rng_for("C18", tier, seed)
    n_rand = 3000 if tier == "quick" else 60000
    for i in range(n_rand):
        n = rng.randrange(0, 40)
        pool = [rng.choice([rng.uniform(-5, 5), rng.random() * 1e-9, float(rng.randrange(-3, 4)), 1e300, -1e300, 5e-324, 0.0, -0.0, float("inf"), float("-inf")]) for _ in range(max(1, n // 2 + 1))]
        lst = sorted(rng.choice(pool) for _ in range(n))
        for _ in range(3):
            x = rng.choice(pool + [rng.uniform(-6, 6), float("inf"), float("-inf")])
            _check_one(res, raw, lst, x, "random")
            if lst:
                res.seen((tuple(lst), x))
        # probes of another numeric type than the elements: ints on float lists, floats / Fractions on int lists
        x = rng.randrange(-6, 7)
        _check_one(res, raw, lst, x, "random-int-probe")
        if i % 3 == 0:
            from fractions import Fraction

            ilst = sorted(rng.randrange(-4, 5) for _ in range(n))
            for x in (rng.choice([-0.5, 0.5, 1.0, 2.0, -3.0, 3.5]), Fraction(rng.randrange(-9, 10), 2), True):
                _check_one(res, raw, ilst, x, "random-int-list")
            half = sorted(rng.randrange(-8, 9) / 2 for _ in range(n))
            for x in (rng.randrange(-4, 5), rng.randrange(-4, 5)):
                _check_one(res, raw, half, x, "random-halves-int-probe")
                res.seen((tuple(half), x, "int"))
    # sequences: many calls of different helpers with different probes on ONE list object (whatever a helper may
    # remember about the previous call must not leak into the next)
    n_seq = 400 if tier == "quick" else 6000
    for i in range(n_seq):
        n = rng.randrange(1, 12)
        lst = sorted(rng.choice([1, 2, 2, 2, 3, 5, 5, 8]) * (1.0 if i % 2 else 1) for _ in range(n))
        for _ in range(rng.randrange(3, 25)):
            x = rng.choice([0, 1, 2, 3, 4, 5, 6, 8, 9, 2.5])
            name = rng.choice(NAMES)
            _check_single(res, raw, name, lst, x, "sequence")
        res.seen((tuple(lst), "sequence", i))
    res.counters["call_sequences_on_one_list"] = n_seq
    # lists that begin / end with infinities, probed with the infinities (exhaustive over a small domain)
    INF = float("inf")
    dom = [-INF, -1.0, 2.0, INF]
    for n in range(0, 5):
        for lst in itertools.combinations_with_replacement(dom, n):
            for x in (-INF, INF, -1.0, 0.0, 2.0, 3.0):
                _check_one(res, raw, list(lst), x, "infinities")
                res.seen((lst, x, "inf"))
    res.counters["random_lists"] = n_rand
    # long lists (beyond any small-size fast path), long runs of duplicates, ints beyond 2**53 next to floats
    n_long = 40 if tier == "quick" else 600
    for i in range(n_long):
        n = rng.choice([63, 64, 65, 255, 256, 257, 1000, 1024, 4097])
        kind = i % 4
        if kind == 0:
            lst = sorted(rng.uniform(-1e6, 1e6) for _ in range(n))
        elif kind == 1:
            lst = sorted(float(rng.randrange(0, 12)) for _ in range(n))  # long duplicate runs
        elif kind == 2:
            lst = sorted(rng.choice([2**53, 2**53 + 1, 2**53 + 2, float(2**53), 1e300, -(2**60)]) for _ in range(n))
        else:
            base = 1_614_834_367.0
            lst = sorted(base + rng.randrange(0, 50) * 1e-6 for _ in range(n))  # timestamps one microsecond apart
        probes = [lst[0], lst[-1], lst[n // 2], lst[0] - 1, lst[-1] + 1, rng.choice(lst), (lst[n // 3] + lst[n // 3 + 1]) / 2]
        for x in probes:
            _check_one(res, raw, lst, x, "long")
            res.seen((len(lst), kind, i, x))
    res.counters["long_lists"] = n_long

    # (b) in situ through a real database
    contracts.install()
    from datetime import timedelta

    from tinyflux import Point, TimeQuery, TinyFlux
    from tinyflux.storages import MemoryStorage

    from ..common import from_us
    from ..gen import BASE_US

    insitu_mismatches = []
    db = TinyFlux(storage=MemoryStorage)
    us = [BASE_US + d for d in (0, 0, 1, 5, 5, 5, 9)]
    db.insert_multiple([Point(time=from_us(u)) for u in us])
    T = TimeQuery()
    for probe in sorted({u + d for u in us for d in (-1, 0, 1)}):
        dt = from_us(probe)
        for q, f in (
            (T == dt, lambda a: a == probe), (T != dt, lambda a: a != probe),
            (T < dt, lambda a: a < probe), (T <= dt, lambda a: a <= probe),
            (T > dt, lambda a: a > probe), (T >= dt, lambda a: a >= probe),
        ):
            res.evaluations += 1
            try:
                got = db.count(q)
            except contracts.ContractBroken:
                got = "contract-broken"
            want = sum(1 for a in us if f(a))
            res.count("insitu.time_queries")
            if got != want:
                insitu_mismatches.append((probe, want, got))
    broken = contracts.drain(res)
    for b in broken:
        res.violate(Violation("C18", "contract-" + b[0], {"list": b[1], "probe": b[2], "observed": b[3]}, replay={"list": b[1], "probe": b[2], "fn": b[0]}))
    insitu = sum(v for k, v in res.counters.items() if k.startswith("contract_evals.find_"))
    res.counters["insitu_contract_evals"] = insitu
    if insitu:
        # the index really answers time queries through the helpers: a wrong answer there is theirs
        for probe, want, got in insitu_mismatches[:3]:
            res.violate(Violation("C18", "insitu-time-search", {"probe_us": probe, "expected": want, "observed": got}, replay={"probe_us": probe}))
    else:
        # an index that does not call the helpers (informational stratum only; C18 is decided by the direct calls above)
        res.count("insitu_skipped_index_does_not_call_the_helpers")
    res.require("direct.find_eq", 792 * 11)
    res.assumptions += [
        "probe values and list elements are mutually comparable numbers (no NaN)",
        "lists are sorted non-decreasing (the helpers' stated precondition)",
    ]


def replay(res, rep):
    import tinyflux.utils as tutils

    r = rep["replay"]
    if "list" in r:
        _check_one(res, {n: getattr(tutils, n) for n in NAMES}, tuple(r["list"]), r["probe"], "replay")
