"""C09 - query expressions mean what the DSL says and never fail on valid points.

Oracle: qast.holds (documented meaning on model data, no tinyflux code) versus
the genuine query object built through the public DSL, on a finite universe of
points containing every combination of missing key / None / "" / zero /
negative / equal-to-bound values.  Exhaustive over atoms, negations and all
binary combinations; deeper expressions over a core; random larger ones.
In situ: contract on CompoundQuery.__call__.
"""
import itertools
import re

from .. import contracts, qast
from ..common import from_us, rng_for
from ..core import Violation
from ..gen import BASE_US, gen_query
from ..model import MPoint

SHARDS = {"quick": 4, "thorough": 16}
TIMEOUT = {"quick": 1800, "thorough": 7200}

T0 = BASE_US
I = int(re.I)


def universe():
    pts = []
    for m in ("m0", "m1"):
        for tk in ("<missing>", None, "", "a", "B"):
            for fx in ("<missing>", None, 0, -1, 1.5, 2):
                for t in (T0, T0 + 1):
                    tags = {} if tk == "<missing>" else {"k": tk}
                    fields = {} if fx == "<missing>" else {"x": fx}
                    pts.append(MPoint(t, m, tags, fields))
    # points that have not been given a time yet (valid points: they are stamped on insert)
    pts.append(MPoint(None, "m0", {"k": "a"}, {"x": 2}))
    pts.append(MPoint(None, "m1", {}, {}))
    # instants that are one microsecond apart where float seconds no longer tell them apart (year 2500, year 1600):
    # a query evaluated on a point compares datetimes, exactly, at any date
    for far in (T_FAR, T_FAR + 1, T_OLD, T_OLD + 1):
        pts.append(MPoint(far, "m0", {"k": "a"}, {"x": 1}))
    # integers that floats cannot tell apart, and one beyond the float range (all valid field values)
    for big in (2**53, 2**53 + 1, float(2**53), -(2**53) - 1, 10**400):
        pts.append(MPoint(T0, "m0", {"k": "a"}, {"x": big}))
    # keys that contain a dot, a slash, a comma (a key is a literal; only attribute / item access builds a path)
    pts.append(MPoint(T0, "m0", {"k": "a", "k.j": "a", "k/j": "a", "k,j": "a"}, {"x": 1, "x.y": 2, "x/y": 2, "x,y": 2}))
    pts.append(MPoint(T0 + 1, "m1", {"k.j": "b"}, {"x.y": -1}))
    return pts


T_FAR = 16_725_225_600_000_000 + 123_457  # 2500-01-01T00:00:00.123457Z
T_OLD = -11_676_096_000_000_000 + 654_321  # 1600-01-01T00:00:00.654321Z


def atom_vocabulary():
    A = []
    ops = list(qast.OPS)
    # time
    for op in ops:
        for us, off in ((T0, 0), (T0 + 1, -480), (T0 - 1, 345)):
            A.append(("cmp", "time", (), op, ("T", us, off)))
    for op in ops:
        A.append(("cmp", "time", (), op, ("T", T_FAR, 0)))
        A.append(("cmp", "time", (), op, ("T", T_OLD + 1, 330)))
    A.append(("cmp", "time", (("map", "trunc_s"),), "==", ("T", T0 - T0 % 1_000_000, 0)))
    A.append(("cmp", "time", (("map", "plus1us"),), ">", ("T", T0 + 1, 60)))
    # comparison values for which the comparison is undefined (naive datetime against aware times): false, never an error
    for op in ("==", "!=", "<", ">="):
        A.append(("cmp", "time", (), op, ("NAIVE", T0)))
    A.append(("test", "time", (), "even_us", ()))
    A.append(("noop", "time"))
    # measurement
    for op in ("==", "!=", "<", ">="):
        for rhs in ("m0", "m1"):
            A.append(("cmp", "measurement", (), op, rhs))
    A.append(("regex", "measurement", (), "matches", r"m\d", 0))
    A.append(("regex", "measurement", (), "search", "1", 0))
    A.append(("regex", "measurement", (), "matches", "M0", I))
    A.append(("test", "measurement", (), "eq_arg", ("m1",)))
    A.append(("cmp", "measurement", (("map", "first"),), "==", "m"))
    A.append(("cmp", "measurement", (("map", "upper"),), "==", "M0"))
    A.append(("noop", "measurement"))
    # tags
    for op in ("==", "!="):
        for rhs in (None, "", "a", "B", "zz"):
            A.append(("cmp", "tags", ("k",), op, rhs))
    for op in ("<", "<=", ">", ">="):
        A.append(("cmp", "tags", ("k",), op, "a"))
    A.append(("cmp", "tags", ("k",), "<", "B"))
    A.append(("cmp", "tags", ("nokey",), "==", "a"))
    A.append(("cmp", "tags", ("nokey",), "!=", "a"))
    A.append(("exists", "tags", "k"))
    A.append(("exists", "tags", "nokey"))
    A.append(("regex", "tags", ("k",), "matches", "a", 0))
    A.append(("regex", "tags", ("k",), "search", "^$", 0))
    A.append(("regex", "tags", ("k",), "matches", "b", I))
    A.append(("regex", "tags", ("k",), "matches", "b", 0))
    A.append(("test", "tags", ("k",), "is_none", ()))
    A.append(("test", "tags", ("k",), "truthy", ()))
    A.append(("cmp", "tags", ("k", ("map", "upper")), "==", "A"))
    A.append(("cmp", "tags", ("k", ("map", "raise")), "==", "a"))
    A.append(("cmp", "tags", (("map", "ident"), "k"), "==", "a"))  # map over the whole tag set, then the key
    A.append(("cmp", "tags", (("map", "ident"), "k", ("map", "upper")), "==", "B"))
    A.append(("noop", "tags"))
    # fields
    for op in ops:
        for rhs in (0, 1.5):
            A.append(("cmp", "fields", ("x",), op, rhs))
    for op in ops:
        A.append(("cmp", "fields", ("x",), op, 2**53 + 1))  # exact integer comparison beyond 2**53
    A.append(("cmp", "fields", ("x",), "<", 10**400))
    A.append(("cmp", "fields", ("x",), ">=", -(2**53) - 1))
    A.append(("cmp", "fields", ("x",), "==", None))
    A.append(("cmp", "fields", ("x",), "!=", None))
    A.append(("cmp", "fields", ("x",), "<", -1))
    A.append(("cmp", "fields", ("x",), ">=", -1))
    A.append(("cmp", "fields", ("nokey",), "!=", 0))
    A.append(("cmp", "fields", ("nokey",), "==", 0))
    A.append(("exists", "fields", "x"))
    A.append(("exists", "fields", "nokey"))
    A.append(("test", "fields", ("x",), "num_pos", ()))
    A.append(("test", "fields", ("x",), "signbit", ()))
    A.append(("test", "fields", ("x",), "is_none", ()))
    A.append(("test", "fields", ("x",), "above_0", ()))
    A.append(("test", "fields", ("x",), "above_1", ()))
    A.append(("test", "tags", ("k",), "lam_a", ()))
    A.append(("test", "tags", ("k",), "lam_b", ()))
    A.append(("test", "fields", ("x",), "gt_arg", (1,)))
    A.append(("test", "fields", ("x",), "between_args", (-1, 2)))
    A.append(("test", "tags", ("k",), "startswith_arg", ("a",)))
    A.append(("test", "measurement", (), "startswith_arg", ("m1",)))
    A.append(("cmp", "fields", ("x", ("map", "neg")), "<", 0))
    A.append(("cmp", "fields", ("x", ("map", "abs")), ">=", 1.5))
    A.append(("cmp", "fields", (("map", "ident"), "x"), ">=", 1.5))
    # compiled patterns (their flags travel inside the pattern object) and patterns that match the empty string
    A.append(("regex", "tags", ("k",), "matches", ("RE", "^b$", I), 0))
    A.append(("regex", "tags", ("k",), "matches", ("RE", "^b$", 0), 0))
    A.append(("regex", "tags", ("k",), "search", ("RE", "A", I), 0))
    A.append(("regex", "measurement", (), "matches", ("RE", "M0", I), 0))
    A.append(("regex", "tags", ("k",), "matches", ".*", 0))
    A.append(("regex", "tags", ("k",), "search", "a?", 0))
    # exists() on a path of two keys: a tag / field value is never a mapping
    A.append(("exists", "tags", ("k", "a")))
    A.append(("exists", "fields", ("x", "real")))
    A.append(("noop", "fields"))
    # noop() on a query that already names a key (present on some points only) or a map function: still every point
    A.append(("noop", "tags", ("k",)))
    A.append(("noop", "tags", ("nokey",)))
    A.append(("noop", "fields", ("x",)))
    A.append(("noop", "fields", ("nokey",)))
    A.append(("noop", "tags", (("map", "ident"), "k")))
    return A


def quick_atoms(A):
    """A 30 atom subset keeping every operator and query type."""
    keep = []
    seen = set()
    for a in A:
        key = qast.shape(a)
        if key not in seen:
            seen.add(key)
            keep.append(a)
    # one more each for the None/missing sensitive ones
    return keep[:52] + [a for a in A if a[0] == "cmp" and a[1] == "fields" and isinstance(a[4], int) and abs(a[4]) > 2**52][:4] + [a for a in A if a[0] == "cmp" and a[1] == "time" and isinstance(a[4], tuple) and a[4][0] == "T" and a[4][1] in (T_FAR, T_OLD + 1)][:6] + [a for a in A if a[0] == "noop" and len(a) > 2][:3] + [a for a in A if (a[0] == "regex" and isinstance(a[4], tuple)) or (a[0] == "exists" and isinstance(a[2], tuple))]


CORE_ATOMS = [
    ("cmp", "time", (), "<=", ("T", T0, 0)),
    ("cmp", "measurement", (), "==", "m0"),
    ("cmp", "tags", ("k",), "!=", "a"),
    ("cmp", "fields", ("x",), "<", 1.5),
    ("exists", "fields", "x"),
    ("regex", "tags", ("k",), "search", "a", I),
]


def _mapping_form(point, i):
    """Tag and field sets are Mappings: every seventh point of the universe carries them as a read-only proxy, a
    ChainMap or an OrderedDict instead of a dict (validate_tags / validate_fields accept any Mapping)."""
    import collections
    import types

    form = i % 21
    if form == 3:
        point.tags = types.MappingProxyType(dict(point.tags))
        point.fields = types.MappingProxyType(dict(point.fields))
    elif form == 10:
        point.tags = collections.ChainMap(dict(point.tags))
        point.fields = collections.ChainMap({}, dict(point.fields))
    elif form == 17:
        point.tags = collections.OrderedDict(point.tags)
        point.fields = collections.OrderedDict(point.fields)
    return point


class Evaluator:
    def __init__(self, res, pts):
        self.res = res
        self.mpts = pts
        self.rpts = [_mapping_form(p.to_real(), i) for i, p in enumerate(pts)]
        self.npts = len(pts)

    def check(self, ast, origin):
        res = self.res
        try:
            q = qast.to_real(ast)
        except Exception as e:
            res.violate(Violation("C09", "query-construction-raises", {"query": qast.show(ast), "exc": f"{type(e).__name__}: {e}"}, replay={"ast": ast}))
            return
        nontrivial = False
        first = None
        for mp, rp in zip(self.mpts, self.rpts):
            if mp.t is None and qast.user_predicate_raises(ast, mp):
                # e.g. Time.test(operator.ge, t) on a point without a time: the caller's predicate is not total on
                # this point, so neither a truth value nor "does not raise" is owed
                res.count("caller_predicate_not_total_skipped")
                continue
            want = qast.holds(ast, mp)
            res.evaluations += 1
            try:
                got = q(rp)
            except contracts.ContractBroken as e:
                got = e
            except Exception as e:  # evaluating a well formed query never raises
                res.count("raised")
                res.violate(Violation(
                    "C09", "query-raises",
                    {"query": qast.show(ast), "point": mp.to_json(), "exc": f"{type(e).__name__}: {e}", "expected": want, "origin": origin},
                    replay={"ast": ast, "point": mp.to_json()},
                    features={"exc": type(e).__name__, "atom_kinds": sorted({a[0] for a in qast.atoms(ast)})},
                ))
                continue
            if bool(got) != want or not isinstance(got, (bool, int)):
                res.count("mismatch")
                res.violate(Violation(
                    "C09", "query-truth-mismatch",
                    {"query": qast.show(ast), "point": mp.to_json(), "expected": want, "observed": repr(got), "origin": origin},
                    replay={"ast": ast, "point": mp.to_json()},
                ))
            if first is None:
                first = want
            elif want != first:
                nontrivial = True
        res.count(f"expr.{origin}")
        if nontrivial:
            res.seen(ast)
            res.count("expr.nonconstant")


KEYS = [
    "k", "K", "k_", "_k", "__k", "k ", " k", "k.j", "k-j", "kj", "0", "", "\u00e9", "k\n",
    # reserved words and their underscore spellings, names of the query object's own methods and attributes
    "class", "class_", "from", "from_", "in", "in_", "pass_", "None", "none", "_none",
    "map", "test", "exists", "noop", "matches", "search", "is_hashable", "_hash", "_path", "_point_attr", "point_attr",
    "tags", "fields", "time", "measurement", "t_k", "f_k", "__class__", "__getitem__",
]


from ..gen import NASTY as _NASTY  # noqa: E402

KEYS = KEYS + [x for x in _NASTY if x not in KEYS]


def key_addressing_pass(res):
    """A key in a query path names exactly that key.  Universe: one point per key of KEYS carrying only that key (as a
    tag and as a field); for every key K, queries on K - spelled with item access, and with attribute access where
    Python allows it (K an identifier that is not an attribute of the query object) - must be true on the point of K
    and on no other point."""
    from tinyflux import FieldQuery, Point, TagQuery

    pts = [(K, Point(time=from_us(T0), tags={K: "v"}, fields={K: 1})) for K in KEYS]
    for K in KEYS:
        spellings = [("item", lambda Q, K=K: Q()[K])]
        if K.isidentifier() and K not in dir(TagQuery()):
            spellings.append(("attr", lambda Q, K=K: getattr(Q(), K)))
            res.count("key_addressing.attribute_spellings")
        for sp, mk in spellings:
            forms = [
                ("tag==", lambda: mk(TagQuery) == "v", True), ("tag!=", lambda: mk(TagQuery) != "zz", True),
                ("tag.exists", lambda: mk(TagQuery).exists(), True), ("tag.matches", lambda: mk(TagQuery).matches("v"), True),
                ("tag.search", lambda: mk(TagQuery).search("v"), True), ("tag.test", lambda: mk(TagQuery).test(_is_v), True),
                ("tag.map", lambda: mk(TagQuery).map(str.upper) == "V", True),
                ("field==", lambda: mk(FieldQuery) == 1, True), ("field>=", lambda: mk(FieldQuery) >= 1, True),
                ("field.exists", lambda: mk(FieldQuery).exists(), True),
                ("~tag==", lambda: ~(mk(TagQuery) == "v"), False), ("~field.exists", lambda: ~mk(FieldQuery).exists(), False),
                ("tag==&field==", lambda: (mk(TagQuery) == "v") & (mk(FieldQuery) == 1), True),
            ]
            for name, build, on_own in forms:
                try:
                    q = build()
                except Exception as e:
                    res.violate(Violation("C09", "query-construction-raises", {"key": K, "spelling": sp, "form": name, "exc": f"{type(e).__name__}: {e}"}, replay={"key": K, "spelling": sp, "form": name}))
                    continue
                for K2, pt in pts:
                    want = on_own if K2 == K else (not on_own)
                    res.evaluations += 1
                    res.count("key_addressing.evaluations")
                    try:
                        got = q(pt)
                    except Exception as e:
                        got = f"raised {type(e).__name__}: {e}"
                    if got is not want and not (isinstance(got, bool) and got == want):
                        res.violate(Violation(
                            "C09", "key-in-query-addresses-another-key",
                            {"key_in_query": K, "spelling": sp, "form": name, "point_has_only_key": K2, "expected": want, "observed": repr(got)},
                            replay={"key": K, "spelling": sp, "form": name, "point_key": K2}, features={"form": name}))
                        break
    res.seen(("key-addressing", len(KEYS)))


def augmented_assignment_pass(res, pts):
    """Queries are values: composing with `q &= r` / `q |= r` (old style dynamic composition) gives q the new meaning
    and leaves every other name of the old object - and everything built from it - with the old meaning."""
    rpts = [p.to_real() for p in pts]
    atoms_ = list(CORE_ATOMS)[:5]
    k = 0
    for i, a in enumerate(atoms_):
        for j, b in enumerate(atoms_):
            for c in atoms_[:3]:
                for start_op in ("or", "and", None):
                    for aug in ("and", "or"):
                        base_ast = a if start_op is None else (start_op, a, b)
                        base = qast.to_real(base_ast)
                        neg = ~base                      # built from the old object
                        outer = base | qast.to_real(c)   # built from the old object
                        alias = base
                        q = base
                        rc = qast.to_real(c)
                        if aug == "and":
                            q &= rc
                        else:
                            q |= rc
                        expect = {
                            "q": (aug, base_ast, c), "alias of the old object": base_ast,
                            "~old built before": ("not", base_ast), "old | c built before": ("or", base_ast, c),
                        }
                        got = {"q": q, "alias of the old object": alias, "~old built before": neg, "old | c built before": outer}
                        k += 1
                        for name, ast in expect.items():
                            for mp, rp in zip(pts, rpts):
                                if mp.t is None:
                                    continue
                                res.evaluations += 1
                                want = qast.holds(ast, mp)
                                try:
                                    val = bool(got[name](rp))
                                except Exception as e:  # noqa: BLE001
                                    val = f"raised {type(e).__name__}"
                                if val != want:
                                    res.violate(Violation(
                                        "C09", "augmented-assignment-changed-another-query",
                                        {"old": qast.show(base_ast), "statement": f"q {'&' if aug == 'and' else '|'}= {qast.show(c)}", "object": name,
                                         "point": mp.to_json(), "expected": want, "observed": val},
                                        replay={"base": base_ast, "aug": aug, "c": c}, features={"object": name}))
                                    break
                            else:
                                continue
                            break
    res.count("augmented_assignments", k)


def deep_chain_pass(res, pts):
    """Queries composed in a loop: hundreds of operands folded with one operator, then combined with another operator
    or negated.  Evaluated by the real objects and, without recursion, by plain boolean folding of the atoms."""
    import functools
    import operator as _op

    rpts = [p.to_real() for p in pts if p.t is not None]
    mpts = [p for p in pts if p.t is not None]
    atoms_ = [("cmp", "tags", ("k",), "==", v) for v in ("a", "B", "", "zz")] + [("cmp", "fields", ("x",), "==", v) for v in (0, -1, 1.5, 2, 7)] + [("exists", "tags", "nokey")]
    bound = ("cmp", "time", (), "<=", ("T", T0, 0))
    for n in (130, 300):
        for fold_op in ("or", "and"):
            seq = [atoms_[(i * 7 + n) % len(atoms_)] for i in range(n)]
            if fold_op == "and":
                seq = [("not", a) if i % 3 else a for i, a in enumerate(seq)]  # keep the conjunction satisfiable
            reals = [qast.to_real(a) for a in seq]
            wide = functools.reduce(_op.or_ if fold_op == "or" else _op.and_, reals)
            variants = [
                ("wide", wide, lambda vals: (any if fold_op == "or" else all)(vals), None),
                ("~wide", ~wide, lambda vals: not (any if fold_op == "or" else all)(vals), None),
                ("wide & bound", wide & qast.to_real(bound), lambda vals, b: (any if fold_op == "or" else all)(vals) and b, bound),
                ("bound | wide", qast.to_real(bound) | wide, lambda vals, b: (any if fold_op == "or" else all)(vals) or b, bound),
                ("~(wide | bound)", ~(wide | qast.to_real(bound)), lambda vals, b: not ((any if fold_op == "or" else all)(vals) or b), bound),
            ]
            all_vals = [[qast.holds(a, mp) for a in seq] for mp in mpts]
            for name, q, f, extra in variants:
                for (mp, rp), vals in zip(zip(mpts, rpts), all_vals):
                    want = f(vals) if extra is None else f(vals, qast.holds(extra, mp))
                    res.evaluations += 1
                    res.count("deep_chain_evaluations")
                    try:
                        got = bool(q(rp))
                    except Exception as e:  # noqa: BLE001
                        got = f"raised {type(e).__name__}"
                    if got != want:
                        res.violate(Violation("C09", "query-truth-mismatch", {"query": f"{name}, wide = {n} operands folded with {fold_op}", "point": mp.to_json(), "expected": want, "observed": got, "origin": "deep-chain"},
                                              replay={"deep_chain": n, "fold": fold_op, "variant": name}, features={"origin": "deep-chain"}))
                        break
    res.seen(("deep-chains",))


def reevaluation_pass(res, A):
    """A query object is a pure function of the point as it is NOW: evaluate on a point, edit the point in place (same
    object), evaluate again with the same query object."""
    from tinyflux import Point

    states = [
        ({"k": "a"}, {"x": 2}, "m0"), ({"k": "B"}, {"x": -1}, "m1"), ({}, {}, "m0"), ({"k": None}, {"x": None}, "m1"), ({"k": ""}, {"x": 1.5}, "m0"),
    ]
    for ast in A:
        if any(a_[0] == "test" and a_[3] in ("lam_a", "lam_b") for a_ in qast.atoms(ast)):
            continue
        try:
            q = qast.to_real(ast)
        except Exception:  # noqa: BLE001
            continue
        p = Point(time=from_us(T0), measurement="m0", tags={"k": "a"}, fields={"x": 2})
        for tags, fields, m in states + states[::-1]:
            p.tags.clear()
            p.tags.update(tags)      # edited in place: the same dict objects, the same Point object
            p.fields.clear()
            p.fields.update(fields)
            p.measurement = m
            mp = MPoint(T0, m, dict(tags), dict(fields))
            want = qast.holds(ast, mp)
            res.evaluations += 1
            res.count("reevaluations_after_in_place_edit")
            try:
                got = bool(q(p))
            except Exception as e:  # noqa: BLE001
                got = f"raised {type(e).__name__}"
            if got != want:
                res.violate(Violation("C09", "query-truth-mismatch", {"query": qast.show(ast), "point": mp.to_json(), "expected": want, "observed": got,
                                      "origin": "same query object, same Point object, edited in place since the previous evaluation"},
                                      replay={"ast": ast, "point": mp.to_json()}, features={"origin": "reevaluation"}))
                break


def _is_v(x):
    return x == "v"


def run(res, tier, seed, shard, nshards):
    contracts.install(compound=True)
    res.rule = (
        "universe = 120 points {2 measurements}x{tag k missing/None/''/'a'/'B'}x{field x missing/None/0/-1/1.5/2}"
        "x{2 adjacent microseconds}; expressions = all atoms of the vocabulary, all negations, all binary &,| "
        "combinations of (atoms U negated atoms) [quick: 34-atom subset], depth-2 exhaustive over a 6 atom core "
        "[thorough: plus depth-3 composites], plus seeded random depth 3-4 expressions; each expression evaluated "
        "on every point by the real query object and by the independent interpreter; distinct_nontrivial = distinct "
        "expressions whose truth vector over the universe is not constant"
    )
    pts = universe()
    ev = Evaluator(res, pts)
    A = atom_vocabulary()
    if shard == 0:
        res.counters["atoms_in_vocabulary"] = len(A)
    atoms_ = A if tier == "thorough" else quick_atoms(A)
    lits = list(atoms_) + [("not", a) for a in atoms_]
    # atoms + negations: always complete, on every shard 0
    if shard == 0:
        for a in A:
            ev.check(a, "atom")
            ev.check(("not", a), "neg")
            ev.check(("not", ("not", a)), "negneg")
        res.sample({"atom": qast.show(A[3]), "n_points": len(pts)})
    # all binary combinations
    k = 0
    for a in lits:
        for b in lits:
            for op in ("and", "or"):
                if k % nshards == shard:
                    ev.check((op, a, b), "binary")
                k += 1
    if shard == 0:
        res.counters["binary_space"] = k
    res.sample({"binary": qast.show(("or", lits[2], lits[-3]))})

    # depth-2 exhaustive over the core on a 24 point sub-universe
    core_pts = [p for p in pts if p.tags.get("k", "<m>") in ("<m>", None, "a") and p.fields.get("x", "<m>") in ("<m>", None, 0, 2) and p.m == "m0"]
    evc = Evaluator(res, core_pts)
    if shard == 0:
        res.counters["core_points"] = len(core_pts)
    d0 = list(CORE_ATOMS)
    d1 = d0 + [("not", a) for a in d0] + [(op, a, b) for op in ("and", "or") for a in d0 for b in d0]
    d2_new = [("not", a) for a in d1[len(d0):]] + [(op, a, b) for op in ("and", "or") for a in d1 for b in d1 if (a not in d0 or b not in d0)]
    k = 0
    for e in d2_new:
        if k % nshards == shard:
            evc.check(e, "core-depth2")
        k += 1
    if shard == 0:
        res.counters["core_depth2_space"] = k
    if tier == "thorough":
        d2 = d1 + d2_new
        k = 0
        for e in d2_new:
            for a in d0:
                for op in ("and", "or"):
                    for pair in ((e, a), (a, e)):
                        if k % nshards == shard:
                            evc.check((op, pair[0], pair[1]), "core-depth3")
                        k += 1
            if k % nshards == shard:
                evc.check(("not", e), "core-depth3")
            k += 1
        if shard == 0:
            res.counters["core_depth3_space"] = k
    res.exhaustive = True
    # random larger expressions
    rng = rng_for("C09", tier, seed, shard)
    n_rand = (1500 if tier == "quick" else 100000 // nshards)
    sub = pts[:: 3 if tier == "quick" else 1]
    evr = Evaluator(res, sub)
    for i in range(n_rand):
        q = gen_query(rng, max_depth=rng.choice([3, 4, 4, 6, 8]))
        evr.check(q, "random")
        if i == 5:
            res.sample({"random": qast.show(q)})

    if shard == (1 % nshards):
        key_addressing_pass(res)
    if shard == (2 % nshards):
        augmented_assignment_pass(res, pts)
    if shard == (0 % nshards):
        reevaluation_pass(res, A + [("not", a_) for a_ in A[:40]] + [("and", A[i], A[-i - 1]) for i in range(30)])
    if shard == (3 % nshards):
        contracts.COMPOUND_CHECK[0] = False
        try:
            deep_chain_pass(res, pts[::11])
        finally:
            contracts.COMPOUND_CHECK[0] = True

    for b in contracts.drain(res):
        res.violate(Violation("C09", "compound-is-not-boolean-operator", {"what": b}, replay={"what": list(b)}))
    res.require("contract_evals.compound_call")
    res.require("expr.binary")
    res.assumptions += [
        "test predicates are total and bool valued (a raising user predicate is the user's fault)",
        "comparison values have the documented type for their query type; time values are timezone aware",
        "NaN field values are not generated",
    ]


def finalize(res, tier):
    res.require("key_addressing.evaluations")
    res.require("key_addressing.attribute_spellings")
    res.require("augmented_assignments")
    res.require("deep_chain_evaluations")
    res.require("reevaluations_after_in_place_edit")


def replay(res, rep):
    contracts.install(compound=True)
    r = rep["replay"]
    ast = qast.tupled(r["ast"])
    if "point" in r:
        p = r["point"]
        pts = [MPoint(p["t"], p["m"], p["tags"], p["fields"])]
    else:
        pts = universe()
    Evaluator(res, pts).check(ast, "replay")
