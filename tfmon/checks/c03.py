"""C03 - update changes exactly the matching points, with documented merge semantics.

Monitors: return value == number of points whose content changed (model);
contents after the call == model (time/measurement replaced, tags/fields merged
key by key, unset applied last, static == callable), order untouched; on CSV the
raw rows of non-selected points are passed through verbatim; later reads are
attributed as in C02; update with nothing to do raises ValueError.
"""
import csv
import io

from .. import gen, contracts, mutjudge, qast
from ..common import Scratch, rng_for
from ..core import Violation
from ..histories import HistoryRunner, Profile, describe, replay_of, replay_ops
from ..session import cfg_name, default_config

SHARDS = {"quick": 8, "thorough": 16}
TIMEOUT = {"quick": 1800, "thorough": 7200}
N_HIST = {"quick": 30, "thorough": 300}
UPDATES = ("update", "update_all")

CONFIGS = [
    default_config("mem", True), default_config("mem", False),
    default_config("csv", True), default_config("csv", False),
]


def make_judge(res):
    return mutjudge.make_judge(res, "C03", UPDATES, "update")


def profile(h=0):
    p = Profile(update=40, update_all=10, remove=0, remove_all=0, drop_measurement=0, insert=25, insert_multiple=5, reindex=6, reopen=4)
    p.getter_probes = True
    p.n_random_probes = 3
    if h % 4 == 2:  # keys that look like the CSV prefixes, contain blanks or dots
        p.extra_tag_keys = ["a b", "_tag_q", "t_q", "f_q"]
        p.extra_field_keys = ["f_q", "x.y", "_field_q", "t_q"]
    if h % 20 == 9:  # hundreds of rows: thresholds far beyond a dozen rows, long index arrays, many matches
        p.max_rows = 700
        p.max_time_probes = 30
        p.min_ops, p.max_ops = 3, 7
    if h % 20 == 13:  # many measurements (prefixes of each other, differing in case / trailing blank), many tag keys and values
        p.meas = ["m0", "m1", "_default", "m", "m00", "M0", "m0 ", "a", "a/b", "None", "k", "x", "1", "measurement", "m1x",
                  "m*", "m?", "m[01]", "rate[5m]", "rate5", ".*", "m.", "%", "m\\d"]  # names that are patterns in some syntax
        p.extra_tag_keys = [f"key{i}" for i in range(14)]
        p.extra_tag_vals = [f"v{i}" for i in range(25)] + ["12", "1.5", "x" * 300]
    if h % 10 == 8:  # strings that are different but equal under some unicode normalisation / folding (NFC, NFKC, casefold)
        p.meas = ["m0", "caf\u00e9", "cafe\u0301", "m2", "m\u00b2", "cpu", "\uff43\uff50\uff55", "stra\u00dfe", "strasse"]
        p.extra_tag_vals = ["m0", "caf\u00e9", "cafe\u0301", "m2", "m\u00b2", "cpu", "\uff43\uff50\uff55", "stra\u00dfe", "strasse"][1:]
    if h % 10 == 6:  # a few measurement names that are patterns in some syntax, next to names they would match
        p.meas = ["m0", "m1", "m*", "m?", "m[01]", "rate[5m]", "rate5", "m."]
    if h % 20 == 17:  # instants at and around the epoch (timestamp 0.0, negative timestamps) and year 1900
        p.grid = gen.EPOCH_GRID
    if h % 100 == 49:  # thousands of rows (thorough tier only reaches h = 49): chunk sizes 500 / 1000 / 1024 / 2048
        p.max_rows = 3000
        p.max_time_probes = 20
        p.min_ops, p.max_ops = 2, 4
    if h % 20 == 7:  # stored instants later than the wall clock (year 2200) next to points stamped at insertion
        p.grid = gen.FUTURE_GRID
    if h % 4 == 3:  # writes directly follow writes; CSV state is read from the file, not through the handle
        p.no_handle_peeks = True
    if h % 8 == 5:
        p.max_rows = 45
        p.max_time_probes = 30
        p.min_ops, p.max_ops = 4, 10
    p.probe_every = 2
    return p


def raw_rows(data, kwargs=None, encoding=None):
    if data is None:
        return None
    return list(csv.reader(io.StringIO(data.decode(encoding or "utf-8"), newline=""), **(kwargs or {})))


class Runner(HistoryRunner):
    """Adds: verbatim pass-through of unselected CSV rows; empty-argument calls."""

    def _write(self, s, op):
        is_upd = op["op"] in UPDATES
        if is_upd and self.rng is not None and self.rng.random() < 0.04:
            op = dict(op, args={})  # nothing to do -> documented ValueError
        pre_rows = raw_rows(s.file_bytes(), s.cfg.get("csv"), s.cfg.get("encoding")) if (is_upd and s.path) else None
        pre_model = s.model.copy() if is_upd else None
        ok = HistoryRunner._write(self, s, op)
        if is_upd and ok and pre_rows is not None:
            post_rows = raw_rows(s.file_bytes(), s.cfg.get("csv"), s.cfg.get("encoding"))
            sel = set(pre_model._sel(op.get("q"), mutjudge._sel_m(op))) if op.get("args") else set()
            if len(post_rows) == len(pre_rows):
                for i, (a, b) in enumerate(zip(pre_rows, post_rows)):
                    if i in sel:
                        continue
                    self.res.count("unselected_rows_compared")
                    if a != b:
                        self.res.violate(Violation(
                            "C03", "unselected-row-rewritten",
                            {"config": cfg_name(s.cfg), "row": i, "before": a, "after": b,
                             "op": dict(op, q=qast.show(op["q"])) if op.get("q") is not None else op},
                            replay=replay_of(s), features={"cfg": cfg_name(s.cfg)},
                        ))
                        break
        return ok


def _wild(p, h, rng, res, cfg=None):
    """Every fifth history draws its names, keys and values from the pool of awkward strings and numbers."""
    if h % 5 == 4 and p.max_rows <= 45 and len(p.meas) <= 8:
        gen.make_wild(p, rng, cfg)
        res.count("histories_wild_vocabulary")
    return p


def _cfg_variant(cfg, h):
    """Non-default storage options, each on its own residue class of the history number, so that they also occur in
    pairs (buffered inserts + "w+", a dialect + an encoding, ...)."""
    if cfg["storage"] != "csv":
        return cfg
    import csv as _csv

    out = dict(cfg)
    if h % 11 == 5:
        out["access_mode"] = "w+"  # a database created with "w+" and then used for everything
    if h % 13 == 8 or h % 17 == 3:
        out["encoding"] = "latin-1"  # every file the storage opens must be opened with it, scratch files included
    if h % 3 == 0:
        out["flush"] = False  # reads go through the same buffered handle
    if h % 7 == 4 or h % 10 == 9:
        out["csv"] = [{"delimiter": ";"}, {"quotechar": "'", "quoting": _csv.QUOTE_ALL}, {"delimiter": "\t", "lineterminator": "\n"}][h % 3]
    return out


# ---------------------------------------------------------------------------
# One result per point: callables that are not pure functions of their argument
# ---------------------------------------------------------------------------
N_IMPURE = {"quick": 40, "thorough": 400}


def _impure_case(res, scratch, ci, n, pat, slots, scoped):
    """Update with callables whose result differs from call to call (a sequence number). Every selected point must carry
    the result of a call made with ITS old value, and no result may be applied to two points. Extra calls (a validation
    pass, say) and any calling order are allowed: only the use of the results is judged."""
    from datetime import datetime, timedelta, timezone

    from tinyflux import Point, TagQuery, TinyFlux
    from tinyflux.storages import MemoryStorage

    cfg = CONFIGS[ci]
    path = scratch.new_db_path() if cfg["storage"] == "csv" else None
    db = TinyFlux(path, auto_index=cfg["auto_index"]) if path else TinyFlux(storage=MemoryStorage, auto_index=cfg["auto_index"])
    t0 = datetime(2021, 3, 4, 5, 6, 7, tzinfo=timezone.utc)
    orig = []
    for i in range(n):
        bits = (pat >> (2 * i)) & 3
        o = {"t": t0 + timedelta(seconds=i), "m": "ma" if (pat >> (i + 7)) & 1 else "mb",
             "tags": {"g": "x" if bits & 1 else "y", "room": "r1" if bits & 2 else "r2"},
             "fields": {"v": float(bits & 2), "w": 1.0}}
        orig.append(o)
        db.insert(Point(time=o["t"], measurement=o["m"], tags=dict(o["tags"]), fields=dict(o["fields"])))
    calls = {k: [] for k in slots}
    counter = [0]

    def mk(slot):
        def fn(old):
            counter[0] += 1
            k_ = counter[0]
            new = {"tags": lambda: {"seq": "s%d" % k_}, "fields": lambda: {"seq": float(k_)},
                   "measurement": lambda: "r%d" % k_, "time": lambda: old + timedelta(microseconds=k_)}[slot]()
            calls[slot].append((dict(old) if isinstance(old, dict) else old, new))
            return new
        return fn

    kw = {k: mk(k) for k in slots}
    if scoped == "all":
        sel = list(range(n))
        ret = db.update_all(**kw)
    else:
        sel = [i for i, o in enumerate(orig) if o["tags"]["g"] == "x"]
        ret = db.update(TagQuery().g == "x", **kw)
    res.count("impure_update_cases")
    res.count("impure_update_calls", sum(len(v) for v in calls.values()))
    detail = {"config": cfg_name(cfg), "n": n, "pattern": pat, "slots": list(slots), "scope": scoped}
    rep = {"battery": "one-result-per-point", "ci": ci, "n": n, "pat": pat, "slots": list(slots), "scoped": scoped}
    reads = [("live", list(db.all(sorted=False)))]
    if path:
        db.close()
        db = TinyFlux(path, auto_index=cfg["auto_index"])
        reads.append(("reopened", list(db.all(sorted=False))))
    db.close()
    bad = None
    if ret != len(sel):
        bad = ("update-wrong-count", {"returned": ret, "selected": len(sel)})
    for where, pts in reads:
        if bad:
            break
        if len(pts) != n:
            bad = ("update-changes-number-of-points", {"where": where, "stored": len(pts)})
            break
        used = {k: [] for k in slots}
        for i, (o, p_) in enumerate(zip(orig, pts)):
            got = {"time": p_.time, "measurement": p_.measurement, "tags": dict(p_.tags), "fields": dict(p_.fields)}
            old = {"time": o["t"], "measurement": o["m"], "tags": o["tags"], "fields": o["fields"]}
            for k in ("time", "measurement", "tags", "fields"):
                if i not in sel or k not in slots:
                    if got[k] != old[k]:
                        bad = ("update-touches-what-was-not-selected", {"where": where, "point": i, "slot": k, "got": repr(got[k]), "expected": repr(old[k])})
                    continue
                cands = [new for (arg, new) in calls[k] if arg == old[k]]
                hit = [new for new in cands if got[k] == ({**old[k], **new} if isinstance(new, dict) else new)]
                if not hit:
                    bad = ("update-result-not-from-a-call-with-the-points-old-value", {"where": where, "point": i, "slot": k, "got": repr(got[k]), "results_for_this_old_value": repr(cands)})
                else:
                    used[k].append(repr(hit[0]))
            if bad:
                break
        for k in slots:
            if not bad and len(set(used[k])) != len(used[k]):
                bad = ("one-callable-result-applied-to-several-points", {"where": where, "slot": k, "results_used": used[k]})
        res.count("impure_update_points_checked", len(pts))
    if bad:
        res.violate(Violation("C03", bad[0], dict(detail, **bad[1]), replay=rep, features={"cfg": cfg_name(cfg)}))


def _impure_battery(res, tier, seed, shard, scratch):
    rng = rng_for("C03", tier, seed, shard, 99, 0)
    for _ in range(N_IMPURE[tier]):
        slots = tuple(k for k in ("time", "measurement", "tags", "fields") if rng.random() < 0.45) or ("tags",)
        _impure_case(res, scratch, rng.randrange(len(CONFIGS)), rng.choice([2, 3, 5, 8]), rng.getrandbits(16), slots, rng.choice(["all", "query"]))


def run(res, tier, seed, shard, nshards):
    contracts.install()
    res.rule = (
        "seeded histories of inserts and updates (update by targeted/negated/compound queries, update_all, through db, "
        "db with measurement scope and handle; every subset of time/measurement/tags/fields/unset_tags/unset_fields, "
        "static or callable, incl. unsetting a key set by the same call, identity updates, time updates that reorder, "
        "renames across measurements) in 4 configurations; distinct_nontrivial = distinct (contents before, query "
        "shape, scope, serving path, argument set) update cases"
    )
    judge = make_judge(res)
    with Scratch("c03") as scratch:
        for ci, cfg in enumerate(CONFIGS):
            for h in range(N_HIST[tier]):
                rng = rng_for("C03", tier, seed, shard, ci, h)
                cfgv = _cfg_variant(cfg, h)
                prof = _wild(profile(h), h, rng, res, cfgv)
                if cfgv.get("encoding"):
                    # text the configured encoding can express and ASCII cannot
                    prof.extra_tag_vals = list(prof.extra_tag_vals) + ["\u00e9t\u00e9", "\u00fc", "\u00a3"]
                    prof.extra_meas = list(prof.extra_meas) + ["m\u00e9t\u00e9o"]
                    res.count("histories_non_default_encoding")
                s = Runner(res, cfgv, scratch, rng, prof, judge).run()
                if h == 0 and shard == 0 and ci in (1, 2):
                    res.sample({"config": cfg_name(cfg), "first_ops": s.log[:5]})
        _impure_battery(res, tier, seed, shard, scratch)
    for b in contracts.drain(res):
        res.violate(Violation("C03", "find-helper-contract", {"what": b}, replay={"what": list(b)}))
    for cfg in CONFIGS:
        if tier == "thorough" or cfg["auto_index"]:
            res.require(f"updates.update.index.{cfg_name(cfg)}")
    res.require("updates.update.scan.mem/noai")
    res.require("updates.update.scan.csv/noai")
    res.require("update.selects_some")
    res.require("update.selected_but_unchanged")
    res.require("update.expected_error")
    res.require("unselected_rows_compared")
    res.require("later_reads")
    res.require("histories_big")
    res.require("impure_update_points_checked")
    res.assumptions += [
        "static falsy arguments ('' / {}) are not generated except the all-empty call (documented ValueError)",
        "updater callables come from a fixed deterministic registry (plus the sequence-number callables of the one-result-per-point pass); <= 12 rows; process TZ = UTC",
    ]


def replay(res, rep):
    r = rep["replay"]
    if r.get("battery") == "one-result-per-point":
        with Scratch("c03r") as scratch:
            _impure_case(res, scratch, r["ci"], r["n"], r["pat"], tuple(r["slots"]), r["scoped"])
        return
    with Scratch("c03r") as scratch:
        replay_ops(res, r["cfg"], r["ops"], scratch, make_judge(res), Runner)
