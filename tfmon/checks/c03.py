"""C03 - update changes exactly the matching points, with documented merge semantics.

Monitors: return value == number of points whose content changed (model);
contents after the call == model (time/measurement replaced, tags/fields merged
key by key, unset applied last, static == callable), order untouched; on CSV the
raw rows of non-selected points are passed through verbatim; later reads are
attributed as in C02; update with nothing to do raises ValueError.
"""
import csv
import io

from .. import gen, contracts, mutjudge, qast
from ..common import Scratch, rng_for
from ..core import Violation
from ..histories import HistoryRunner, Profile, describe, replay_of, replay_ops
from ..session import cfg_name, default_config

SHARDS = {"quick": 8, "thorough": 16}
TIMEOUT = {"quick": 1800, "thorough": 7200}
N_HIST = {"quick": 30, "thorough": 300}
UPDATES = ("update", "update_all")

CONFIGS = [
    default_config("mem", True), default_config("mem", False),
    default_config("csv", True), default_config("csv", False),
]


def make_judge(res):
    return mutjudge.make_judge(res, "C03", UPDATES, "update")


def profile(h=0):
    p = Profile(update=40, update_all=10, remove=0, remove_all=0, drop_measurement=0, insert=25, insert_multiple=5, reindex=6, reopen=4)
    p.getter_probes = True
    p.n_random_probes = 3
    if h % 4 == 2:  # keys that look like the CSV prefixes, contain blanks or dots
        p.extra_tag_keys = ["a b", "_tag_q", "t_q", "f_q"]
        p.extra_field_keys = ["f_q", "x.y", "_field_q", "t_q"]
    if h % 20 == 9:  # hundreds of rows: thresholds far beyond a dozen rows, long index arrays, many matches
        p.max_rows = 700
        p.max_time_probes = 30
        p.min_ops, p.max_ops = 3, 7
    if h % 20 == 13:  # many measurements (prefixes of each other, differing in case / trailing blank), many tag keys and values
        p.meas = ["m0", "m1", "_default", "m", "m00", "M0", "m0 ", "a", "a/b", "None", "k", "x", "1", "measurement", "m1x",
                  "m*", "m?", "m[01]", "rate[5m]", "rate5", ".*", "m.", "%", "m\\d"]  # names that are patterns in some syntax
        p.extra_tag_keys = [f"key{i}" for i in range(14)]
        p.extra_tag_vals = [f"v{i}" for i in range(25)] + ["12", "1.5", "x" * 300]
    if h % 10 == 8:  # strings that are different but equal under some unicode normalisation / folding (NFC, NFKC, casefold)
        p.meas = ["m0", "caf\u00e9", "cafe\u0301", "m2", "m\u00b2", "cpu", "\uff43\uff50\uff55", "stra\u00dfe", "strasse"]
        p.extra_tag_vals = ["m0", "caf\u00e9", "cafe\u0301", "m2", "m\u00b2", "cpu", "\uff43\uff50\uff55", "stra\u00dfe", "strasse"][1:]
    if h % 10 == 6:  # a few measurement names that are patterns in some syntax, next to names they would match
        p.meas = ["m0", "m1", "m*", "m?", "m[01]", "rate[5m]", "rate5", "m."]
    if h % 20 == 17:  # instants at and around the epoch (timestamp 0.0, negative timestamps) and year 1900
        p.grid = gen.EPOCH_GRID
    if h % 100 == 49:  # thousands of rows (thorough tier only reaches h = 49): chunk sizes 500 / 1000 / 1024 / 2048
        p.max_rows = 3000
        p.max_time_probes = 20
        p.min_ops, p.max_ops = 2, 4
    if h % 20 == 7:  # stored instants later than the wall clock (year 2200) next to points stamped at insertion
        p.grid = gen.FUTURE_GRID
    if h % 4 == 3:  # writes directly follow writes; CSV state is read from the file, not through the handle
        p.no_handle_peeks = True
    if h % 8 == 5:
        p.max_rows = 45
        p.max_time_probes = 30
        p.min_ops, p.max_ops = 4, 10
    p.probe_every = 2
    return p


def raw_rows(data, kwargs=None, encoding=None):
    if data is None:
        return None
    return list(csv.reader(io.StringIO(data.decode(encoding or "utf-8"), newline=""), **(kwargs or {})))


class Runner(HistoryRunner):
    """Adds: verbatim pass-through of unselected CSV rows; empty-argument calls."""

    def _write(self, s, op):
        is_upd = op["op"] in UPDATES
        if is_upd and self.rng is not None and self.rng.random() < 0.04:
            op = dict(op, args={})  # nothing to do -> documented ValueError
        pre_rows = raw_rows(s.file_bytes(), s.cfg.get("csv"), s.cfg.get("encoding")) if (is_upd and s.path) else None
        pre_model = s.model.copy() if is_upd else None
        ok = HistoryRunner._write(self, s, op)
        if is_upd and ok and pre_rows is not None:
            post_rows = raw_rows(s.file_bytes(), s.cfg.get("csv"), s.cfg.get("encoding"))
            sel = set(pre_model._sel(op.get("q"), mutjudge._sel_m(op))) if op.get("args") else set()
            if len(post_rows) == len(pre_rows):
                for i, (a, b) in enumerate(zip(pre_rows, post_rows)):
                    if i in sel:
                        continue
                    self.res.count("unselected_rows_compared")
                    if a != b:
                        self.res.violate(Violation(
                            "C03", "unselected-row-rewritten",
                            {"config": cfg_name(s.cfg), "row": i, "before": a, "after": b,
                             "op": dict(op, q=qast.show(op["q"])) if op.get("q") is not None else op},
                            replay=replay_of(s), features={"cfg": cfg_name(s.cfg)},
                        ))
                        break
        return ok


def _wild(p, h, rng, res, cfg=None):
    """Every fifth history draws its names, keys and values from the pool of awkward strings and numbers."""
    if h % 5 == 4 and p.max_rows <= 45 and len(p.meas) <= 8:
        gen.make_wild(p, rng, cfg)
        res.count("histories_wild_vocabulary")
    return p


def _cfg_variant(cfg, h):
    """Non-default storage options, each on its own residue class of the history number, so that they also occur in
    pairs (buffered inserts + "w+", a dialect + an encoding, ...)."""
    if cfg["storage"] != "csv":
        return cfg
    import csv as _csv

    out = dict(cfg)
    if h % 11 == 5:
        out["access_mode"] = "w+"  # a database created with "w+" and then used for everything
    if h % 13 == 8 or h % 17 == 3:
        out["encoding"] = "latin-1"  # every file the storage opens must be opened with it, scratch files included
    if h % 3 == 0:
        out["flush"] = False  # reads go through the same buffered handle
    if h % 7 == 4 or h % 10 == 9:
        out["csv"] = [{"delimiter": ";"}, {"quotechar": "'", "quoting": _csv.QUOTE_ALL}, {"delimiter": "\t", "lineterminator": "\n"}][h % 3]
    return out


def run(res, tier, seed, shard, nshards):
    contracts.install()
    res.rule = (
        "seeded histories of inserts and updates (update by targeted/negated/compound queries, update_all, through db, "
        "db with measurement scope and handle; every subset of time/measurement/tags/fields/unset_tags/unset_fields, "
        "static or callable, incl. unsetting a key set by the same call, identity updates, time updates that reorder, "
        "renames across measurements) in 4 configurations; distinct_nontrivial = distinct (contents before, query "
        "shape, scope, serving path, argument set) update cases"
    )
    judge = make_judge(res)
    with Scratch("c03") as scratch:
        for ci, cfg in enumerate(CONFIGS):
            for h in range(N_HIST[tier]):
                rng = rng_for("C03", tier, seed, shard, ci, h)
                cfgv = _cfg_variant(cfg, h)
                prof = _wild(profile(h), h, rng, res, cfgv)
                if cfgv.get("encoding"):
                    # text the configured encoding can express and ASCII cannot
                    prof.extra_tag_vals = list(prof.extra_tag_vals) + ["\u00e9t\u00e9", "\u00fc", "\u00a3"]
                    prof.extra_meas = list(prof.extra_meas) + ["m\u00e9t\u00e9o"]
                    res.count("histories_non_default_encoding")
                s = Runner(res, cfgv, scratch, rng, prof, judge).run()
                if h == 0 and shard == 0 and ci in (1, 2):
                    res.sample({"config": cfg_name(cfg), "first_ops": s.log[:5]})
    for b in contracts.drain(res):
        res.violate(Violation("C03", "find-helper-contract", {"what": b}, replay={"what": list(b)}))
    for cfg in CONFIGS:
        if tier == "thorough" or cfg["auto_index"]:
            res.require(f"updates.update.index.{cfg_name(cfg)}")
    res.require("updates.update.scan.mem/noai")
    res.require("updates.update.scan.csv/noai")
    res.require("update.selects_some")
    res.require("update.selected_but_unchanged")
    res.require("update.expected_error")
    res.require("unselected_rows_compared")
    res.require("later_reads")
    res.require("histories_big")
    res.assumptions += [
        "static falsy arguments ('' / {}) are not generated except the all-empty call (documented ValueError)",
        "updater callables come from a fixed deterministic registry; <= 12 rows; process TZ = UTC",
    ]


def replay(res, rep):
    r = rep["replay"]
    with Scratch("c03r") as scratch:
        replay_ops(res, r["cfg"], r["ops"], scratch, make_judge(res), Runner)
