"""C01 - query results equal exactly the stored points that satisfy the query.

Reference-model monitor: after every mutating op of seeded histories a probe
battery (all six time comparisons at every stored instant +-1us, plus random
ASTs) is answered by the real database through count/search/contains/get/select
(db and handle, with/without measurement filter) and compared with the model,
in all four configurations {CSV, memory} x {auto_index on, off}.
"""
from .. import gen, contracts, cover, qast
from ..common import Scratch, rng_for
from ..core import Violation
from ..histories import HistoryRunner, Profile, describe, replay_of, replay_ops
from ..session import QUERY_READS, cfg_name, default_config

SHARDS = {"quick": 8, "thorough": 16}
TIMEOUT = {"quick": 1800, "thorough": 7200}
N_HIST = {"quick": 40, "thorough": 400}  # per config per shard

CONFIGS = [
    default_config("mem", True), default_config("mem", False),
    default_config("csv", True), default_config("csv", False),
]


def make_judge(res):
    def judge(kind, s, out, ctx):
        if kind == "begin":
            return
        op = out.op
        if kind != "read" or (op["op"] not in QUERY_READS and op["op"] != "all"):
            return
        serving = "index" if (s.cfg["auto_index"] or out.pre_valid) else "scan"
        cfg = cfg_name(s.cfg)
        res.count(f"answers.{op['op']}.{serving}.{cfg}")
        q = op.get("q")
        if q is not None:
            res.seen((tuple(p.canon() for p in s.model.points), qast.shape(q), op["op"], serving))
        size = len(out.exp) if isinstance(out.exp, list) else None
        if size is not None:
            n = len(s.model.points)
            res.count("result.empty" if size == 0 else ("result.full" if size == n else "result.partial"))
        if out.agrees():
            return
        kind_ = "read-raises" if out.exc is not None else f"{op['op']}-wrong-answer"
        res.violate(Violation(
            "C01", kind_, describe(s, out), replay=replay_of(s),
            features={"serving": serving, "op": op["op"], "cfg": cfg, "shape": None if q is None else repr(qast.shape(q))},
        ))

    return judge


def profile(h=0):
    p = Profile()
    if h % 4 == 2:  # keys that look like the CSV prefixes, contain blanks or dots
        p.extra_tag_keys = ["a b", "_tag_q", "t_q", "f_q"]
        p.extra_field_keys = ["f_q", "x.y", "_field_q", "t_q"]
    if h % 20 == 9:  # hundreds of rows: thresholds far beyond a dozen rows, long index arrays, many matches
        p.max_rows = 700
        p.max_time_probes = 30
        p.min_ops, p.max_ops = 3, 7
    if h % 20 == 13:  # many measurements (prefixes of each other, differing in case / trailing blank), many tag keys and values
        p.meas = ["m0", "m1", "_default", "m", "m00", "M0", "m0 ", "a", "a/b", "None", "k", "x", "1", "measurement", "m1x",
                  "m*", "m?", "m[01]", "rate[5m]", "rate5", ".*", "m.", "%", "m\\d"]  # names that are patterns in some syntax
        p.extra_tag_keys = [f"key{i}" for i in range(14)]
        p.extra_tag_vals = [f"v{i}" for i in range(25)] + ["12", "1.5", "x" * 300]
    if h % 10 == 8:  # strings that are different but equal under some unicode normalisation / folding (NFC, NFKC, casefold)
        p.meas = ["m0", "caf\u00e9", "cafe\u0301", "m2", "m\u00b2", "cpu", "\uff43\uff50\uff55", "stra\u00dfe", "strasse"]
        p.extra_tag_vals = ["m0", "caf\u00e9", "cafe\u0301", "m2", "m\u00b2", "cpu", "\uff43\uff50\uff55", "stra\u00dfe", "strasse"][1:]
    if h % 10 == 6:  # a few measurement names that are patterns in some syntax, next to names they would match
        p.meas = ["m0", "m1", "m*", "m?", "m[01]", "rate[5m]", "rate5", "m."]
    if h % 20 == 17:  # instants at and around the epoch (timestamp 0.0, negative timestamps) and year 1900
        p.grid = gen.EPOCH_GRID
    if h % 100 == 49:  # thousands of rows (thorough tier only reaches h = 49): chunk sizes 500 / 1000 / 1024 / 2048
        p.max_rows = 3000
        p.max_time_probes = 20
        p.min_ops, p.max_ops = 2, 4
    if h % 20 == 7:  # stored instants later than the wall clock (year 2200) next to points stamped at insertion
        p.grid = gen.FUTURE_GRID
    if h % 4 == 3:  # writes directly follow writes; CSV state is read from the file, not through the handle
        p.no_handle_peeks = True
    if h % 8 == 5:  # a stratum of bigger databases (thresholds above a dozen rows)
        p.max_rows = 45
        p.max_time_probes = 40
        p.min_ops, p.max_ops = 4, 10
    return p


def _with_big_ints(p, cfg, h):
    """Memory storage keeps ints exactly: integers beyond 2**53 (CSV stores numbers as floats - a listed C05 finding)."""
    if cfg["storage"] == "mem" and h % 5 == 1:
        p.extra_field_vals = [2**53, 2**53 + 1, -(2**53) - 1, 10**17 + 3]
    return p


def _wild(p, h, rng, res, cfg=None):
    """Every fifth history draws its names, keys and values from the pool of awkward strings and numbers."""
    if h % 5 == 4 and p.max_rows <= 45 and len(p.meas) <= 8:
        gen.make_wild(p, rng, cfg)
        res.count("histories_wild_vocabulary")
    return p


def _cfg_variant(cfg, h):
    """Non-default storage options, each on its own residue class of the history number, so that they also occur in
    pairs (buffered inserts + "w+", a dialect + an encoding, ...)."""
    if cfg["storage"] != "csv":
        return cfg
    import csv as _csv

    out = dict(cfg)
    if h % 11 == 5:
        out["access_mode"] = "w+"  # a database created with "w+" and then used for everything
    if h % 13 == 8 or h % 17 == 3:
        out["encoding"] = "latin-1"  # every file the storage opens must be opened with it, scratch files included
    if h % 3 == 0:
        out["flush"] = False  # reads go through the same buffered handle
    if h % 7 == 4 or h % 10 == 9:
        out["csv"] = [{"delimiter": ";"}, {"quotechar": "'", "quoting": _csv.QUOTE_ALL}, {"delimiter": "\t", "lineterminator": "\n"}][h % 3]
    return out


def run(res, tier, seed, shard, nshards):
    contracts.install()
    res.rule = (
        "seeded histories (5-25 mutating ops over insert/insert_multiple/update/update_all/remove/remove_all/"
        "drop_measurement/reindex/reopen, <=12 rows, tiny colliding vocabulary, out-of-order and duplicate times) in 4 "
        "configurations; after every mutating op: all six time comparisons at every stored instant and its +-1us "
        "neighbours plus 6 random/targeted ASTs (depth<=3) each through count/search/contains/get/select, via db or "
        "Measurement handle; evaluations = API calls judged; distinct_nontrivial = distinct (database contents, query "
        "shape, read op, serving path) tuples"
    )
    judge = make_judge(res)
    cover.start(cover.anchored_read_write_functions())
    with Scratch("c01") as scratch:
        for ci, cfg in enumerate(CONFIGS):
            for h in range(N_HIST[tier]):
                rng = rng_for("C01", tier, seed, shard, ci, h)
                cfgv = _cfg_variant(cfg, h)
                prof = _wild(_with_big_ints(profile(h), cfg, h), h, rng, res, cfgv)
                if cfgv.get("encoding"):
                    # text the configured encoding can express and ASCII cannot
                    prof.extra_tag_vals = list(prof.extra_tag_vals) + ["\u00e9t\u00e9", "\u00fc", "\u00a3"]
                    prof.extra_meas = list(prof.extra_meas) + ["m\u00e9t\u00e9o"]
                    res.count("histories_non_default_encoding")
                s = HistoryRunner(res, cfgv, scratch, rng, prof, judge).run()
                if h == 0 and shard == 0 and ci in (0, 2):
                    res.sample({"config": cfg_name(cfg), "first_ops": s.log[:6]})
    cover.collect(res)
    for b in contracts.drain(res):
        res.violate(Violation("C01", "find-helper-contract", {"what": b}, replay={"what": list(b)}))
    for cfg in CONFIGS:
        for serving in (("index",) if cfg["auto_index"] else ("index", "scan")):
            res.require(f"answers.search.{serving}.{cfg_name(cfg)}")
            res.require(f"answers.count.{serving}.{cfg_name(cfg)}")
    res.require("result.partial")
    res.require("histories_big")
    res.assumptions += [
        "time comparison values are timezone-aware datetimes (the documented form)",
        "map() functions preserve the type of the addressed attribute; test() predicates are total",
        "query depth <= 3, <= 12 rows, NaN never generated, process TZ = UTC (C08 varies TZ)",
    ]


def replay(res, rep):
    r = rep["replay"]
    with Scratch("c01r") as scratch:
        replay_ops(res, r["cfg"], r["ops"], scratch, make_judge(res))


def finalize(res, tier):
    un = cover.unreached(res, cover.anchored_read_write_functions())
    res.notes.append("executable lines of the anchored functions never executed by this run: " + repr({k: v for k, v in un.items() if v}))
    # gate: both the index-assisted and the scan loops of search()/select() must have run
    for fn in ("TinyFlux.search", "TinyFlux.select", "TinyFlux.get", "Index._search_timestamps"):
        if not res.sets.get(f"lines.{fn}"):
            res.inconclusive.append(f"no line of {fn} was executed")
