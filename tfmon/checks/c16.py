"""C16 - insert is append-only and its I/O cost does not depend on database size.

Events: file bytes before/after each insert; the I/O proxy's call log on the
primary handle during the insert; at syscall level the strace log of a child
that inserts between two marker syscalls.
Oracle: old bytes are a prefix of the new bytes; zero read/iterate calls on the
primary handle (proxy) and zero read syscalls on the database fd (strace) during
insert; the per-point call signature is identical for database sizes
{0, 1, 10, 100, 1000, 5000}, in-order and out-of-order timestamps, auto_index
on/off, and after get/contains left the file position mid-file.
"""
import csv
import os
import shutil

from .. import gen, ioproxy, sysmon
from ..common import Scratch, from_us, quiet_stdout, rng_for
from ..core import Violation
from ..gen import BASE_US

REPLAY_BY_RERUN = True  # workloads are deterministic in (tier, seed, shard): replay re-runs the shard
SHARDS = {"quick": 4, "thorough": 8}
TIMEOUT = {"quick": 1800, "thorough": 7200}
SIZES = {"quick": [0, 1, 10, 100, 1000, 5000], "thorough": [0, 1, 2, 10, 100, 1000, 5000, 20000]}
READ_KINDS = {"read", "iter"}


def build_file(path, n):
    """A database file with n rows (times 1s apart), written directly."""
    from tinyflux import Point

    with open(path, "w", newline="") as f:
        w = csv.writer(f)
        for i in range(n):
            p = Point(time=from_us(BASE_US + i * 1_000_000), measurement=f"m{i % 3}", tags={"k": "ab"[i % 2], "j": str(i % 7)}, fields={"x": i, "y": 0.5})
            w.writerow(p._serialize_to_list(i % 4 == 0))


def observe_insert(res, scratch, n, auto, order, early_read, k_points, compact):
    """Insert into a database of n rows under the recording proxies. Returns (signature, facts)."""
    from tinyflux import Point, TagQuery, TinyFlux

    path = scratch.new_db_path()
    build_file(path, n)
    hub = ioproxy.IOHub()
    hub.primary = path
    rec = ioproxy.Recorder()
    try:
        with ioproxy.Installed(hub), quiet_stdout():
            db = TinyFlux(path, auto_index=auto)
            if early_read == "get":
                db.get(TagQuery().k == "a")
            elif early_read == "contains":
                db.contains(TagQuery().j == "3")
            elif early_read == "count":
                db.count(TagQuery().k == "b")
            t = BASE_US + (n + 5) * 1_000_000 if order == "in-order" else BASE_US - 5_000_000
            pts = [Point(time=from_us(t + i), tags={"k": "new"}, fields={"x": 1.5}) for i in range(k_points)]
            before = ioproxy.kernel_bytes(path)
            hub.monitor = rec
            if k_points == 1:
                db.insert(pts[0], compact_key_prefixes=compact)
            else:
                db.insert_multiple(pts, compact_key_prefixes=compact)
            hub.monitor = ioproxy.NullMonitor()
            after = ioproxy.kernel_bytes(path)
            db.close()
    finally:
        scratch.drop_db_dir(path)
    sig = tuple(rec.sigs())
    facts = {
        "prefix": after.startswith(before) and len(after) > len(before),
        "reads": [repr(e) for e in rec.events if e.kind in READ_KINDS],
        "non_primary": [repr(e) for e in rec.events if e.target != "primary"],
        "n_calls": len(sig),
    }
    return sig, facts


def proxy_tier(res, tier, shard, nshards, scratch):
    cases = []
    for auto in (True, False):
        for order in ("in-order", "out-of-order"):
            for early in (None, "get", "contains", "count"):
                for k_points in (1, 3):
                    cases.append((auto, order, early, k_points))
    for ci, (auto, order, early, k_points) in enumerate(cases):
        if ci % nshards != shard:
            continue
        ref = None
        for n in SIZES[tier]:
            if n == 0 and early:
                continue
            sig, facts = observe_insert(res, scratch, n, auto, order, early, k_points, compact=(ci % 2 == 0))
            res.evaluations += 1
            res.count("proxy.inserts_observed")
            res.count(f"proxy.size.{n}")
            res.seen((auto, order, early, k_points, n))
            ctx = {"auto_index": auto, "order": order, "after_read": early, "points": k_points, "db_rows": n, "calls": list(sig)}
            rep = {"auto_index": auto, "order": order, "after_read": early, "points": k_points, "db_rows": n}
            if not facts["prefix"]:
                res.violate(Violation("C16", "insert-not-append-only", ctx, replay=rep, features={"what": "prefix"}))
            if facts["reads"]:
                res.violate(Violation("C16", "insert-reads-existing-data", dict(ctx, reads=facts["reads"][:5]), replay=rep, features={"what": "reads"}))
            if facts["non_primary"]:
                res.violate(Violation("C16", "insert-touches-other-files", dict(ctx, calls_elsewhere=facts["non_primary"][:5]), replay=rep, features={"what": "other-files"}))
            per_point = len(sig) / k_points
            if ref is None:
                ref = (n, sig)
                if len(res.samples) < 3:
                    res.sample({"case": rep, "per_point_signature": list(sig[: len(sig) // k_points])})
            elif sig != ref[1]:
                res.violate(Violation(
                    "C16", "insert-io-depends-on-database-size",
                    dict(ctx, reference_rows=ref[0], reference_calls=list(ref[1])), replay=rep, features={"what": "signature"},
                ))
            if len(sig) % k_points or sig[: len(sig) // k_points] * k_points != sig:
                # informational only: the property asks for a cost independent of the database SIZE (checked above
                # against the reference signature), not for every point of one call to cost the same
                res.count("proxy.per_point_signature_not_periodic")
            res.counters.setdefault("proxy.calls_per_point", per_point)


def history_tier(res, tier, seed, shard, scratch):
    """Prefix + no-read monitor on every insert of random histories."""
    from ..histories import Profile, gen_write_op
    from ..session import Session, default_config

    n_hist = 6 if tier == "quick" else 60
    for h in range(n_hist):
        rng = rng_for("C16", tier, seed, shard, h)
        cfg = default_config("csv", rng.random() < 0.5)
        if h % 3 == 2:
            cfg["flush"] = False  # bytes may reach the file later, but only ever as appends
            res.count("history.flush_on_insert_false")
        s = Session(cfg, scratch)
        hub = ioproxy.IOHub()
        hub.primary = s.path
        prof = Profile()
        try:
            with quiet_stdout():
                for step in range(rng.randint(6, 18)):
                    op = gen_write_op(rng, s.model, prof)
                    if op.get("ps_form") == "gen_reading":
                        op["ps_form"] = "gen"  # a source that itself reads the database would be the reader seen here
                    if op["op"] not in ("insert", "insert_multiple"):
                        s.do(op)
                        if rng.random() < 0.5 and s.model.points:
                            s.do({"op": rng.choice(["get", "contains"]), "q": ("cmp", "measurement", (), "==", rng.choice(gen.MEAS))})
                        continue
                    if rng.random() < 0.25 and s.model.points:
                        # an insert that fails inside the storage layer (a valid point the CSV row cannot express):
                        # whatever it does, it may only ever append
                        from tinyflux import Point as _P

                        before = s.file_bytes()
                        bad = rng.choice([lambda: _P(time=from_us(BASE_US), fields={"x": 10**400}), lambda: _P(time=from_us(BASE_US), tags={"k": "\ud800"})])
                        try:
                            if rng.random() < 0.5:
                                s.db.insert(bad())
                            else:
                                s.db.insert_multiple([bad()])
                            raised = False
                        except Exception:  # noqa: BLE001
                            raised = True
                        res.count("history.failing_inserts" if raised else "history.failing_inserts_accepted")
                        mid = s.file_bytes()
                        if not mid.startswith(before):
                            res.violate(Violation("C16", "insert-not-append-only", {"config": cfg, "what": "an insert that raised in the storage layer changed earlier bytes", "rows_before": len(s.model.points)}, replay={"cfg": cfg, "ops": list(s.log)}, features={"what": "prefix", "origin": "failing insert"}))
                            return
                        if not raised:
                            return  # storage accepted it: the model no longer describes the file, stop this history
                    before = s.file_bytes()
                    rec = ioproxy.Recorder()
                    hub.monitor = rec
                    with ioproxy.Installed(hub):
                        st = s.db.storage
                        ioproxy.wrap_open_handles(hub, st)
                        try:
                            out = s.do(op)
                        finally:
                            ioproxy.unwrap_handles(st)
                    after = s.file_bytes()
                    res.evaluations += 1
                    res.count("history.inserts_observed")
                    n_new = 1 if op["op"] == "insert" else len(op["ps"])
                    ctx = {"config": cfg, "op": op, "rows_before": len(s.model.points) - n_new, "calls": rec.sigs()[:20]}
                    if not after.startswith(before):
                        res.violate(Violation("C16", "insert-not-append-only", ctx, replay={"cfg": cfg, "ops": list(s.log)}, features={"what": "prefix"}))
                        return
                    rd = [repr(e) for e in rec.events if e.kind in READ_KINDS]
                    if rd:
                        res.violate(Violation("C16", "insert-reads-existing-data", dict(ctx, reads=rd[:5]), replay={"cfg": cfg, "ops": list(s.log)}, features={"what": "reads"}))
                        return
                if not cfg.get("flush", True):
                    # a run of buffered inserts, then close: what reaches the file is exactly the appended rows
                    base = s.file_bytes()
                    want_rows = []
                    from tinyflux import Point as _P

                    for i in range(rng.randint(2, 6)):
                        p_ = _P(time=from_us(BASE_US + (10_000 + i) * 1_000_000), tags={"k": "buffered"}, fields={"x": i})
                        s.db.insert(p_, compact_key_prefixes=bool(i % 2))
                        now = s.file_bytes()
                        res.count("history.buffered_inserts_observed")
                        if not now.startswith(base):
                            res.violate(Violation("C16", "insert-not-append-only", {"config": cfg, "what": "buffered insert rewrote earlier bytes", "insert_no": i}, replay={"cfg": cfg, "ops": list(s.log)}, features={"what": "prefix", "origin": "flush_on_insert=False"}))
                            return
                        base = now
                        want_rows.append(",".join(str(c) for c in p_._serialize_to_list(bool(i % 2))))
                    s.db.close()
                    final = s.file_bytes()
                    tail = final[len(base):] if final.startswith(base) else None
                    text = final.decode("utf-8", "replace")
                    missing = [r for r in want_rows if text.count(r) != 1]
                    if tail is None or missing:
                        res.violate(Violation("C16", "insert-not-append-only", {"config": cfg, "what": "after close the file does not hold every buffered row exactly once after the earlier content", "rows_missing_or_duplicated": missing[:3]}, replay={"cfg": cfg, "ops": list(s.log)}, features={"what": "prefix", "origin": "flush_on_insert=False"}))
                        return
        finally:
            s.discard()


def aborted_op_tier(res, tier, seed, shard, scratch):
    """Inserts that follow an operation aborted half-way (raising predicate / updater) on files larger than the
    I/O buffers, and that follow partial reads: still pure appends, still no reads."""
    from tinyflux import MeasurementQuery, Point, TagQuery, TinyFlux

    class Abort(RuntimeError):
        pass

    def boom_after(k):
        n = [0]

        def f(v):
            n[0] += 1
            if n[0] > k:
                raise Abort("aborted")
            return True

        return f

    n_cases = 6 if tier == "quick" else 40
    for i in range(n_cases):
        rng = rng_for("C16", tier, seed, shard, "aborted", i)
        n = rng.choice([40, 150, 400, 1200])
        auto = rng.random() < 0.5
        path = scratch.new_db_path()
        build_file(path, n)
        hub = ioproxy.IOHub()
        hub.primary = path
        try:
            with ioproxy.Installed(hub), quiet_stdout():
                db = TinyFlux(path, auto_index=auto)
                k = rng.choice([0, 3, n // 2, n - 2])
                kind = rng.choice(["update-predicate", "remove-predicate", "update-updater", "search-predicate", "get"])
                try:
                    if kind == "update-predicate":
                        db.update(TagQuery().k.test(boom_after(k)), tags={"z": "1"})
                    elif kind == "remove-predicate":
                        db.remove(TagQuery().j.test(boom_after(k)))
                    elif kind == "update-updater":
                        ba = boom_after(k)
                        db.update_all(tags=lambda t: ({"z": "1"} if ba(t) else {}))
                    elif kind == "search-predicate":
                        db.search(MeasurementQuery().test(boom_after(k)))
                    else:
                        db.get(TagQuery().j == str(k % 7))
                except (Abort, ValueError):
                    res.count("aborted_ops")
                for r in range(2):
                    before = ioproxy.kernel_bytes(path)
                    rec = ioproxy.Recorder()
                    hub.monitor = rec
                    db.insert(Point(time=from_us(BASE_US + (n + 50 + r) * 1_000_000), tags={"k": "after-abort"}, fields={"x": r}))
                    hub.monitor = ioproxy.NullMonitor()
                    after = ioproxy.kernel_bytes(path)
                    res.evaluations += 1
                    res.count("aborted.inserts_observed")
                    res.seen(("aborted", kind, n, auto, k, r))
                    ctx = {"auto_index": auto, "db_rows": n, "before_insert": f"{kind} aborted after {k} evaluations", "calls": rec.sigs()[:20],
                           "bytes_before": len(before), "bytes_after": len(after)}
                    rep = {"aborted": kind, "db_rows": n, "k": k, "auto_index": auto}
                    if not (after.startswith(before) and len(after) > len(before)):
                        res.violate(Violation("C16", "insert-not-append-only", ctx, replay=rep, features={"what": "prefix", "origin": "aborted-op"}))
                        break
                    rd = [repr(e) for e in rec.events if e.kind in READ_KINDS]
                    if rd:
                        res.violate(Violation("C16", "insert-reads-existing-data", dict(ctx, reads=rd[:5]), replay=rep, features={"what": "reads", "origin": "aborted-op"}))
                        break
                db.close()
        finally:
            scratch.drop_db_dir(path)


def strace_tier(res, tier, shard, scratch):
    if not sysmon.available():
        res.notes.append("strace sub-tier skipped: " + sysmon.why_unavailable())
        return
    sizes = [0, 10, 1000] if tier == "quick" else [0, 1, 10, 100, 1000, 5000]
    variants = [(True, None), (False, "get")] if tier == "quick" else [(True, None), (False, None), (True, "get"), (False, "contains")]
    for vi, (auto, early) in enumerate(variants):
        if vi % 2 != shard % 2:
            continue
        ref = None
        for n in sizes:
            work = scratch.new_db_path()
            wdir = os.path.dirname(work)
            db = os.path.join(wdir, "db.csv")
            build_file(db, n)
            before = ioproxy.kernel_bytes(db)
            job = {"mode": "insert-between-markers", "auto_index": auto, "early": early if n else None, "t_us": BASE_US + (n + 9) * 1_000_000}
            rc, calls, result = sysmon.run_child(job, db, wdir)
            after = ioproxy.kernel_bytes(db)
            shutil.rmtree(wdir, ignore_errors=True)
            res.count("strace.children")
            marks = [i for i, c in enumerate(calls) if c[0] in ("chmod", "fchmodat")]
            if rc != 0 or len(marks) < 2:
                res.count("strace.unusable_runs")
                continue
            during = [c[0] for c in calls[marks[0] + 1: marks[1]]]
            res.evaluations += 1
            res.count("strace.inserts_observed")
            res.seen(("strace", auto, early, n))
            ctx = {"auto_index": auto, "after_read": early, "db_rows": n, "syscalls_during_insert": during}
            rep = {"strace": True, "auto_index": auto, "after_read": early, "db_rows": n}
            if not (after.startswith(before) and len(after) > len(before)):
                res.violate(Violation("C16", "insert-not-append-only", ctx, replay=rep, features={"what": "prefix", "origin": "strace"}))
            if any(c in ("read", "pread64", "readv") for c in during):
                res.violate(Violation("C16", "insert-reads-existing-data", ctx, replay=rep, features={"what": "reads", "origin": "strace"}))
            if ref is None:
                ref = (n, during)
                res.counters.setdefault("strace.syscalls_per_insert", len(during))
            elif during != ref[1]:
                res.violate(Violation("C16", "insert-io-depends-on-database-size", dict(ctx, reference_rows=ref[0], reference=ref[1]), replay=rep, features={"what": "signature", "origin": "strace"}))


def run(res, tier, seed, shard, nshards):
    res.rule = (
        "(1) proxy recorder: 32 cases {auto_index on/off} x {in-order, out-of-order} x {no read, get, contains, count "
        "before} x {insert, insert_multiple of 3} each at database sizes 0/1/10/100/1000/5000: bytes-prefix, zero "
        "read/iter calls on the primary handle, no call on any other file, identical call signature across sizes and "
        "constant per point; (2) the same prefix/no-read monitor on every insert of seeded random histories; (3) strace: "
        "a child inserts between two marker syscalls, syscalls on the database fd in between must contain no read and be "
        "identical across sizes; distinct_nontrivial = distinct (case, size) observations"
    )
    with Scratch("c16") as scratch:
        proxy_tier(res, tier, shard, nshards, scratch)
        history_tier(res, tier, seed, shard, scratch)
        aborted_op_tier(res, tier, seed, shard, scratch)
        strace_tier(res, tier, shard, scratch)
    res.require("proxy.inserts_observed")
    res.require("history.inserts_observed")
    res.require("aborted.inserts_observed")
    res.require("history.buffered_inserts_observed")
    res.assumptions += [
        "I/O cost = calls made by tinyflux.storages on the database handle (proxy) / syscalls on the database fd (strace); CPU work is not measured",
    ]


def finalize(res, tier):
    for n in SIZES[tier]:
        res.require(f"proxy.size.{n}")
    if sysmon.available():
        res.require("strace.inserts_observed")


def replay(res, rep):
    r = rep["replay"]
    if r.get("strace") or "db_rows" not in r:
        print("re-run ./check C16")
        return
    with Scratch("c16r") as scratch:
        sig, facts = observe_insert(res, scratch, r["db_rows"], r["auto_index"], r["order"], r["after_read"], r["points"], False)
        print("calls:", sig, facts)
