"""C04 - after every completed operation the CSV file alone holds the current contents.

Events: the bytes of the database file after each API call returns (for
flush_on_insert=False: after close()), decoded (1) by an independent reader that
shares no code with tinyflux and (2) by a fresh TinyFlux(copy, access_mode='r',
same options).  Oracle: decoded list == model contents in insertion order.
Configurations: {flush_on_insert} x {encoding default, utf-8, utf-16, latin-1} x
{csv dialect kwargs} x compact/default prefixes mixed in one file; histories
interleave writes with reads that stop early (get / contains).
"""
import csv
import io
import locale

from .. import csvcodec, gen, qast
from ..common import Scratch, quiet_stdout, rng_for
from ..core import Violation
from ..histories import Profile, gen_write_op, targeted_query
from ..model import MPoint
from ..session import Session, default_config, norm_points
from .c05 import gen_text

REPLAY_BY_RERUN = True  # workloads are deterministic in (tier, seed, shard): replay re-runs the shard
SHARDS = {"quick": 8, "thorough": 16}
TIMEOUT = {"quick": 1800, "thorough": 7200}
N_HIST = {"quick": 8, "thorough": 24}  # per configuration per shard (56 configurations)

ENCODINGS = [None, "utf-8", "utf-16", "latin-1"]
DIALECTS = [
    {},
    {"delimiter": ";"},
    {"quotechar": "'"},
    {"quoting": csv.QUOTE_ALL},
    {"escapechar": "\\", "doublequote": False},
    {"lineterminator": "\n"},
    {"lineterminator": "\r"},
    {"skipinitialspace": True, "quoting": csv.QUOTE_ALL},
    {"delimiter": "|", "quoting": csv.QUOTE_MINIMAL, "lineterminator": "\r\n"},
]


def configs():
    out = []
    for flush in (True, False):
        for enc in ENCODINGS:
            for d in DIALECTS:
                out.append({"flush": flush, "encoding": enc, "csv": d})
    # flush_on_insert given as 1 (truthy, == True, not a bool): flushes like True
    out.append({"flush": True, "encoding": None, "csv": {}, "flush_as_int": True})
    out.append({"flush": True, "encoding": "utf-8", "csv": {"delimiter": ";"}, "flush_as_int": True})
    return out


def cfg_label(c):
    return f"flush={'1 (int)' if c.get('flush_as_int') else c['flush']},enc={c['encoding']},dialect={c['csv']}"


def encodable(s, enc):
    try:
        s.encode(enc or locale.getencoding())
        return True
    except UnicodeEncodeError:
        return False


def row_admissible(mp, compact, dialect, enc):
    """csv module round-trips the row under the dialect and the text is in the encoding's repertoire."""
    row = list(mp.to_real()._serialize_to_list(compact))
    if not all(encodable(c, enc) for c in row):
        return False
    buf = io.StringIO(newline="")
    try:
        csv.writer(buf, **dialect).writerow(row)
        return list(csv.reader(io.StringIO(buf.getvalue(), newline=""), **dialect)) == [row]
    except Exception:
        return False


def gen_nasty_spec(rng, cfg, res):
    """A point spec whose strings come from the nasty generator (admissible for the config)."""
    for _ in range(30):
        spec = gen.gen_point(rng, gen.MEAS, False)
        if rng.random() < 0.7:
            spec["m"] = gen_text(rng) or "m"
            if spec["m"] == "_none" or not spec["m"]:
                spec["m"] = "m0"
        tags = {}
        for _ in range(rng.choice([0, 1, 2])):
            v = None if rng.random() < 0.2 else gen_text(rng)
            if v == "_none":
                v = "_none_"  # listed C05 codec finding, not C04's business
            tags[gen_text(rng)] = v
        spec["tags"].update(tags)
        if rng.random() < 0.5:
            spec["fields"][gen_text(rng)] = rng.choice([0, -0.0, 1.5, None, 7, float("inf"), 1e-320])
        from ..session import model_point

        mp = model_point(spec)
        if row_admissible(mp, False, cfg["csv"], cfg["encoding"]) and row_admissible(mp, True, cfg["csv"], cfg["encoding"]):
            return spec
        res.count("discarded.inadmissible_point")
    return gen.gen_point(rng, gen.MEAS, False)


def decode_both(res, s, cfg, scratch):
    """Contents by independent reader and by fresh TinyFlux; strings on failure."""
    from tinyflux import TinyFlux

    data = s.file_bytes()
    try:
        ind = [p.canon() for p in csvcodec.decode_bytes(data, cfg["encoding"], cfg["csv"])]
    except csvcodec.DecodeError as e:
        ind = f"independent reader: {e}"
    path = scratch.new_db_path()
    try:
        with open(path, "wb") as f:
            f.write(data)
        kw = dict(cfg["csv"])
        if cfg["encoding"] is not None:
            kw["encoding"] = cfg["encoding"]
        try:
            with quiet_stdout():
                db = TinyFlux(path, access_mode="r", auto_index=bool(len(data) % 2), **kw)
                fresh = norm_points(db.all(sorted=False))
                db.close()
        except Exception as e:
            fresh = f"fresh TinyFlux reader: {type(e).__name__}: {e}"
    finally:
        scratch.drop_db_dir(path)
    return ind, fresh, data


def run_history(res, c, scratch, rng):
    cfg = default_config("csv", rng.random() < 0.5, flush=c["flush"], encoding=c["encoding"], csv=c["csv"], flush_as_int=bool(c.get("flush_as_int")))
    if c["flush"] and rng.random() < 0.2:
        # access mode w+ (truncate on open, then read/write): only ever opened once in a history
        cfg["access_mode"] = "w+"
        res.count("histories_access_mode_w+")
    s = Session(cfg, scratch)
    # The "current logical contents" are what the same operations yield on a memory-storage twin: a difference
    # between the file and the twin is the storage layer's doing (C04); a difference between twin and model is a
    # logic defect that belongs to C01-C03 and is only counted here.
    twin = Session(default_config("mem", cfg["auto_index"]), scratch)
    label = cfg_label(c)
    prof = Profile(insert=40, insert_multiple=8, update=12, update_all=3, remove=12, remove_all=1, drop_measurement=2, reindex=3, reopen=0)
    prof.allow_no_time = False

    def compare(after_op):
        ind, fresh, data = decode_both(res, s, cfg, scratch)
        want = [p.canon() for p in s.model.points]
        res.evaluations += 1
        res.count("file_comparisons")
        res.count(f"cfg.flush={c['flush']}.enc={c['encoding']}")
        if ind == want and fresh == want:
            return True
        who = "independent reader" if ind != want else "fresh TinyFlux reader"
        got = ind if ind != want else fresh
        res.violate(Violation(
            "C04", "file-does-not-hold-current-contents",
            {"config": label, "auto_index": cfg["auto_index"], "after": after_op if "q" not in after_op else dict(after_op, q=qast.show(after_op["q"])),
             "reader": who, "expected_rows": len(want), "decoded": repr(got)[:500], "expected": repr(want)[:500], "file_bytes": len(data)},
            replay={"cfg": cfg, "ops": list(s.log)},
            features={"flush": c["flush"], "encoding": c["encoding"], "op": after_op["op"], "dialect": repr(c["csv"])},
        ))
        return False

    def prelude():
        """Buffered rows that are removed again before anything reached the file (flush_on_insert=False)."""
        ops = []
        n = rng.choice([1, 1, 2])
        for _ in range(n):
            ops.append({"op": "insert", "p": gen_nasty_spec(rng, c, res)})
        ops.append(rng.choice([{"op": "remove_all"}, {"op": "remove", "q": ("noop", "measurement")},
                               {"op": "update_all", "args": {"tags": {"static": {"zz": "1"}}}}]))
        if rng.random() < 0.5:
            ops.append({"op": "insert", "p": gen_nasty_spec(rng, c, res)})
        for op in ops:
            s.do(op)
            twin.do(op)
        res.count("buffered_then_removed_preludes")
        tpost = twin.contents()
        s.model.points = [MPoint(x[0], x[1], dict(x[2]), dict(x[3])) for x in tpost]
        twin.model.points = [q_.copy() for q_ in s.model.points]
        s.db.close()
        ok = compare({"op": "close", "after": "buffered inserts removed again"})
        s.db = s._open() if cfg.get("access_mode") != "w+" else s.db
        return ok

    companion = None
    if rng.random() < 0.3:
        # a second database with different csv options, open and used at the same time (no process-global state)
        other = [d for d in DIALECTS if d != c["csv"]]
        ccfg = default_config("csv", rng.random() < 0.5, flush=True, encoding=rng.choice([None, "utf-8"]), csv=rng.choice(other))
        companion = (Session(ccfg, scratch), Session(default_config("mem", ccfg["auto_index"]), scratch), ccfg)
        res.count("histories_with_a_companion_database")
    try:
        with quiet_stdout():
            if not c["flush"] and cfg.get("access_mode") != "w+" and rng.random() < 0.4:
                if not prelude():
                    return
            for step in range(rng.randint(6, 16)):
                op = gen_write_op(rng, s.model, prof)
                if op["op"] == "insert":
                    op["p"] = gen_nasty_spec(rng, c, res)
                elif op["op"] == "insert_multiple":
                    op["ps"] = [gen_nasty_spec(rng, c, res) for _ in op["ps"]]
                unenc = False
                if op["op"] == "insert" and c["encoding"] == "latin-1" and rng.random() < 0.15:
                    # text outside the encoding's repertoire: the insert must fail (and change nothing) - it must not
                    # "succeed" with different characters in the file
                    op["p"] = dict(op["p"], tags=dict(op["p"].get("tags") or {}, k=rng.choice(["10 \u20ac", "\u4e2d", "a\u2013b"])))
                    unenc = True
                    res.count("unencodable_inserts")
                out = s.do(op)
                if unenc and isinstance(out.exc, UnicodeError):
                    res.count("unencodable_inserts_rejected")
                    s.model.points = [q_.copy() for q_ in twin.model.points]
                    if c["flush"] and not compare(dict(op, then="rejected: text not encodable")):
                        return
                    continue
                tout = twin.do(op)
                res.count(f"ops.{op['op']}")
                if op.get("compact"):
                    res.count("compact_prefix_inserts")
                tpost = twin.contents()
                if tpost != [p.canon() for p in s.model.points] or tout.exc is not None:
                    res.count("logic_deviation_on_memory_twin_not_c04")
                    if any(x and x[0] == "BAD" for x in tpost):
                        return
                s.model.points = [MPoint(x[0], x[1], dict(x[2]), dict(x[3])) for x in tpost]
                twin.model.points = [q_.copy() for q_ in s.model.points]
                if (out.exc is None) != (tout.exc is None):
                    res.violate(Violation(
                        "C04", "csv-and-memory-storage-disagree-on-outcome",
                        {"config": label, "after": op if "q" not in op else dict(op, q=qast.show(op["q"])),
                         "csv": repr(out.exc or out.real)[:200], "memory": repr(tout.exc or tout.real)[:200]},
                        replay={"cfg": cfg, "ops": list(s.log)},
                        features={"flush": c["flush"], "encoding": c["encoding"], "op": op["op"], "dialect": repr(c["csv"])},
                    ))
                    return
                # the file is read (separate descriptor) BEFORE any peek through the database's own handle:
                # seeking that handle would flush its write buffer and hide rows that were never handed to the kernel
                if c["flush"] and out.exc is None and tout.exc is None:
                    if not compare(dict(op, then="checked before any further call")):
                        return
                res.seen((label, tuple(p.canon() for p in s.model.points)))
                if companion is not None:
                    cs, ct, ccfg = companion
                    cop = {"op": "insert", "p": gen_nasty_spec(rng, {"csv": ccfg["csv"], "encoding": ccfg["encoding"]}, res)}
                    if cs.model.points and rng.random() < 0.3:
                        cop = {"op": "update_all", "args": {"tags": {"static": {"comp": str(step)}}}}
                    cs.do(cop)
                    ct.do(cop)
                    cdata = cs.file_bytes()
                    try:
                        cind = [p.canon() for p in csvcodec.decode_bytes(cdata, ccfg["encoding"], ccfg["csv"])]
                    except csvcodec.DecodeError as e:
                        cind = f"independent reader: {e}"
                    cwant = ct.contents()
                    res.count("companion_file_comparisons")
                    if cind != cwant:
                        res.violate(Violation(
                            "C04", "file-does-not-hold-current-contents",
                            {"config": "companion database " + cfg_label({"flush": True, "encoding": ccfg["encoding"], "csv": ccfg["csv"]}) + " used alongside " + label,
                             "after": cop, "reader": "independent reader", "decoded": repr(cind)[:400], "expected": repr(cwant)[:400]},
                            replay={"cfg": cfg, "companion_cfg": ccfg, "ops": list(s.log), "companion_ops": list(cs.log)},
                            features={"flush": True, "encoding": ccfg["encoding"], "op": cop["op"], "dialect": repr(ccfg["csv"]), "companion": True},
                        ))
                        return
                # a read that stops early leaves the file position somewhere in the middle
                if rng.random() < 0.5 and s.model.points:
                    q = targeted_query(rng, s.model, {})
                    rout = s.do({"op": rng.choice(["get", "contains", "count"]), "q": q})
                    res.count("early_terminating_reads")
                    if rout.exc is not None:
                        res.violate(Violation(
                            "C04", "database-cannot-read-its-own-file",
                            {"config": label, "after": op if "q" not in op else dict(op, q=qast.show(op["q"])), "exc": f"{type(rout.exc).__name__}: {rout.exc}"[:300]},
                            replay={"cfg": cfg, "ops": list(s.log)},
                            features={"flush": c["flush"], "encoding": c["encoding"], "op": op["op"], "dialect": repr(c["csv"])},
                        ))
                        return
                else:
                    res.count("writes_directly_after_writes")
                if c["flush"]:
                    if not compare(op):
                        return
                elif rng.random() < 0.35:
                    s.db.close()
                    res.count("closes_before_compare")
                    ok = compare(dict(op, then="close"))
                    s.db = s._open()
                    if not ok:
                        return
            s.db.close()
            compare({"op": "close"})
        res.count("histories")
        if len(res.samples) < 3 and len(s.log) > 6:
            res.sample({"config": label, "auto_index": cfg["auto_index"], "ops": [o if "q" not in o else dict(o, q=qast.show(o["q"])) for o in s.log[:7]]})
    finally:
        s.discard()
        twin.discard()
        if companion is not None:
            companion[0].discard()
            companion[1].discard()


def run(res, tier, seed, shard, nshards):
    res.rule = (
        "56 CSVStorage configurations {flush_on_insert T/F} x {encoding default, utf-8, utf-16, latin-1} x 7 dialects; "
        "seeded histories of inserts (nasty strings: delimiters, quotes, CR/LF, non-ASCII; compact and default prefixes "
        "mixed), insert_multiple, update, remove, drop_measurement, remove_all, reindex interleaved with early-"
        "terminating get/contains; after every op (flush=True) or after close (flush=False) the file bytes are decoded "
        "by an independent reader and by a fresh TinyFlux(access_mode='r') and compared with the model; "
        "distinct_nontrivial = distinct (configuration, contents) states compared"
    )
    cs = configs()
    with Scratch("c04") as scratch:
        for ci, c in enumerate(cs):
            for h in range(N_HIST[tier]):
                if (ci * N_HIST[tier] + h) % nshards != shard and tier == "quick":
                    continue
                rng = rng_for("C04", tier, seed, shard, ci, h)
                run_history(res, c, scratch, rng)
    res.require("file_comparisons")
    res.require("early_terminating_reads")
    res.require("compact_prefix_inserts")
    res.require("histories_access_mode_w+")
    res.require("companion_file_comparisons")
    res.assumptions += [
        "text is drawn from the encoding's repertoire and a row is only used under a dialect the csv module itself round-trips (counted discards)",
        "newline='' (the quantifier does not range over it; the csv docs require it)",
        "triggers of the listed C05 codec findings ('_none' tag value, ints beyond 2**53) are not generated here",
    ]


def finalize(res, tier):
    for flush in (True, False):
        for enc in ENCODINGS:
            res.require(f"cfg.flush={flush}.enc={enc}")
    res.require("ops.update")
    res.require("ops.remove")
    res.require("closes_before_compare")


def replay(res, rep):
    print("C04 replay: the replay file holds the configuration and op log; re-run ./check C04 with the evidence seed")
