"""C12 - a crash at any I/O step leaves the file holding the old or the new contents.

Offline checker over a recorded boundary log: while a mutating operation runs on
a CSV database, the I/O proxies snapshot the database file *as the kernel holds
it* before every I/O call of tinyflux.storages (write, flush, fsync, truncate,
seek, close, temp create, file copy open/mid/done, replace, ...) and after the
last one.  Every distinct snapshot must be openable by a fresh reader and decode
to the contents before the operation or after it (insert_multiple: old + any
prefix of the new points).  A subset is re-validated by really killing a child
process with SIGKILL at the k-th syscall touching the database (strace).
"""
import os

from .. import csvcodec, gen, ioproxy, qast, sysmon
from ..common import Scratch, quiet_stdout, rng_for
from ..core import Violation, h64
from ..histories import Profile, gen_write_op
from ..model import MPoint
from ..session import Session, cfg_name, default_config, norm_points

REPLAY_BY_RERUN = True  # workloads are deterministic in (tier, seed, shard): replay re-runs the shard
SHARDS = {"quick": 8, "thorough": 16}
TIMEOUT = {"quick": 1800, "thorough": 7200}
N_HIST = {"quick": 8, "thorough": 150}
N_KILL = {"quick": 2, "thorough": 12}  # traced (history, op) pairs per shard

CONFIGS = [default_config("csv", True), default_config("csv", False)]
MUTATORS = {"insert", "insert_multiple", "update", "update_all", "remove", "remove_all", "drop_measurement"}


def siblings(path):
    """Other files in the database directory (what a crash would leave next to the database), as kernel bytes."""
    d = os.path.dirname(path)
    out = {}
    try:
        names = os.listdir(d)
    except FileNotFoundError:
        return out
    for n in names:
        p = os.path.join(d, n)
        if p != path and os.path.isfile(p):
            out[n] = ioproxy.kernel_bytes(p) or b""
    return out


class SnapshotMonitor(ioproxy.NullMonitor):
    def __init__(self, path):
        self.path = path
        self.snaps = []  # (event repr, database bytes, {sibling name: bytes})
        self.events = []

    def before(self, ev):
        self.events.append(ev)
        self.snaps.append((repr(ev), ioproxy.kernel_bytes(self.path), siblings(self.path)))

    def final(self):
        self.snaps.append(("<after last I/O call>", ioproxy.kernel_bytes(self.path), siblings(self.path)))


def acceptable_states(old, new, op):
    """List of acceptable contents (lists of canon tuples)."""
    acc = [[p.canon() for p in old], [p.canon() for p in new]]
    if op["op"] == "insert_multiple":
        n_old = len(old)
        for k in range(n_old, len(new) + 1):
            acc.append([p.canon() for p in new[:k]])
    return acc


def decode_snapshot(data, scratch, cfg, sibs=None):
    """(contents by independent decoder, contents seen after a restart) or error strings.

    The restart opens the database the way an application would (default access mode) in a directory holding
    the database file AND whatever else the crash left next to it (temporary / backup / journal files).
    """
    from tinyflux import TinyFlux

    try:
        ind = [p.canon() for p in csvcodec.decode_bytes(data, "utf-8", {})]
    except csvcodec.DecodeError as e:
        ind = f"independent reader: {e}"
    path = scratch.new_db_path()
    try:
        with open(path, "wb") as f:
            f.write(data)
        for name, b in (sibs or {}).items():
            with open(os.path.join(os.path.dirname(path), name), "wb") as f:
                f.write(b)
        try:
            with quiet_stdout():
                db = TinyFlux(path, access_mode="r", auto_index=cfg["auto_index"])
                fresh = norm_points(db.all(sorted=False))
                db.close()
                db = TinyFlux(path, auto_index=cfg["auto_index"])  # a normal restart
                again = norm_points(db.all(sorted=False))
                db.close()
                if again != fresh:
                    fresh = again
        except Exception as e:
            fresh = f"fresh TinyFlux reader: {type(e).__name__}: {e}"
    finally:
        scratch.drop_db_dir(path)
    return ind, fresh


def check_snapshots(res, s, op, old, new, mon, scratch, origin="proxy"):
    acc = acceptable_states(old, new, op)
    seen = {}
    ok = True
    for snap in mon.snaps:
        label, data = snap[0], snap[1]
        sibs = snap[2] if len(snap) > 2 else {}
        res.count(f"{origin}.crash_points")
        if data is None:
            data_key = None
        else:
            data_key = (h64(data), tuple(sorted((n, h64(b)) for n, b in sibs.items())))
        if data_key in seen:
            continue
        seen[data_key] = label
        res.count(f"{origin}.distinct_states_decoded")
        res.evaluations += 1
        if data is None:
            verdict = "database file missing"
            ind = fresh = verdict
        else:
            ind, fresh = decode_snapshot(data, scratch, s.cfg, sibs)
            if sibs:
                res.count(f"{origin}.states_with_leftover_files")
            verdict = None
            if isinstance(ind, str):
                verdict = ind
            elif isinstance(fresh, str):
                verdict = fresh
            elif ind not in acc or fresh not in acc:
                verdict = "decodes to neither the old nor the new contents"
        state = "old" if (not isinstance(ind, str) and ind == acc[0]) else ("new" if (not isinstance(ind, str) and ind == acc[1]) else "other")
        res.count(f"{origin}.state.{state}")
        if verdict:
            ok = False
            kinds = sorted({e.sig() for e in mon.events}) if mon.events else []
            res.violate(Violation(
                "C12", "crash-leaves-neither-old-nor-new",
                {"config": cfg_name(s.cfg), "op": op if "q" not in op else dict(op, q=qast.show(op["q"])),
                 "crash_before": label, "why": verdict, "file_bytes": len(data) if data is not None else None,
                 "rows_old": len(old), "rows_new": len(new),
                 "decoded": repr(ind)[:400], "origin": origin},
                replay={"cfg": s.cfg, "ops": list(s.log), "crash_before": label},
                features={"op": op["op"], "boundary": label.split(":")[1] if ":" in label else label,
                          "uses_copy": "primary.copy_done" in kinds, "origin": origin},
            ))
            break
    return ok


def run_history(res, cfg, scratch, rng, hidx, kill_budget):
    prof = Profile(reindex=2, reopen=2)
    prof.allow_no_time = False
    link = None
    if hidx % 4 == 3:
        # the database is opened through a symbolic link (db.csv -> real/real.csv)
        link = scratch.new_db_path()
        real_dir = os.path.join(os.path.dirname(link), "real")
        os.mkdir(real_dir)
        open(os.path.join(real_dir, "real.csv"), "w").close()
        os.symlink(os.path.join(real_dir, "real.csv"), link)
        res.count("histories_through_a_symlink")
    s = Session(cfg, scratch, path=link)
    hub = ioproxy.IOHub()
    hub.primary = s.path
    try:
        n_ops = rng.randint(5, 14)
        for step in range(n_ops):
            op = gen_write_op(rng, s.model, prof)
            if op["op"] not in MUTATORS:
                s.do(op)
                continue
            if op["op"] in ("remove", "update") and rng.random() < 0.25 and s.model.points:
                # a query whose parts are answered differently (index-exact part | part that needs a storage scan):
                # however the operation is carried out, it must reach the file as ONE change
                p0 = rng.choice(s.model.points)
                exact = ("cmp", "measurement", (), "==", p0.m) if rng.random() < 0.5 else ("cmp", "time", (), "<=", ("T", p0.t, 0))
                scan = ("not", ("cmp", "fields", (rng.choice(["x", "y"]),), rng.choice([">", "<=", "=="]), rng.choice([0, 1, 2])))
                op["q"] = (rng.choice(["or", "or", "and"]), exact, scan) if rng.random() < 0.7 else ("or", scan, exact)
                res.count("mixed_exact_and_scan_queries")
            if rng.random() < 0.4 and s.model.points:
                # a read that stops early leaves the file position somewhere in the middle
                s.do({"op": rng.choice(["get", "contains"]), "q": ("cmp", "measurement", (), "==", rng.choice(gen.MEAS))})
                res.count("early_terminating_reads_before_op")
            if op["op"] == "insert" and rng.random() < 0.08:
                # a row longer than the 8 KiB text/binary buffers
                op["p"]["tags"]["big"] = "x" * rng.choice([9000, 20000, 70000])
                res.count("rows_longer_than_io_buffer")
            held = None
            if rng.random() < 0.2 and s.model.points:
                # the application holds an iteration over the database that it has started and not finished
                held = iter(s.db)
                try:
                    next(held)
                except Exception:  # noqa: BLE001
                    pass
                res.count("ops_with_an_unfinished_iteration_held")
            old = [p.copy() for p in s.model.points]
            do_kill = kill_budget[0] > 0 and step >= 2 and rng.random() < 0.35 and sysmon.available()
            pre_bytes = s.file_bytes()
            mon = SnapshotMonitor(s.path)
            hub.monitor = mon
            hub.k = 0
            with ioproxy.Installed(hub):
                # the handle held by the open database predates the proxies: rewrap it
                st = s.db.storage
                ioproxy.wrap_open_handles(hub, st)
                try:
                    out = s.do(op)
                finally:
                    ioproxy.unwrap_handles(st)
            mon.final()
            hub.monitor = ioproxy.NullMonitor()
            res.count(f"ops.{op['op']}")
            new = [p.copy() for p in s.model.points]
            if out.exc is not None or not out.agrees():
                res.count("op_itself_misbehaved_skipped")
                post = s.contents()
                s.model.points = [MPoint(c[0], c[1], dict(c[2]), dict(c[3])) for c in post if c[0] != "BAD"]
                continue
            res.seen((tuple(p.canon() for p in old), op["op"], repr(op.get("q")), repr(op.get("args")), tuple(e.sig() for e in mon.events)))
            res.count("io_calls_observed", len(mon.events))
            if len(res.samples) < 3 and op["op"] in ("update", "remove", "insert_multiple") and len(old) >= 2 and len(mon.events) > 8:
                res.sample({"config": cfg_name(cfg), "op": op if "q" not in op else dict(op, q=qast.show(op["q"])),
                            "rows_before": len(old), "rows_after": len(new),
                            "crash_points": [sn[0] for sn in mon.snaps][:40]})
            if not check_snapshots(res, s, op, old, new, mon, scratch):
                return
            if do_kill:
                kill_budget[0] -= 1
                sysmon.kill_sweep(res, s, op, pre_bytes, old, new, scratch, check_snapshots)
        res.count("histories")
    finally:
        s.discard()


def run_large_file(res, cfg, scratch, rng):
    """A database file well beyond 1 MiB (rows of 40-70 KB): rewrites of late, middle and early rows."""
    s = Session(cfg, scratch)
    hub = ioproxy.IOHub()
    hub.primary = s.path
    try:
        n = rng.randint(22, 34)
        for i in range(n):
            spec = gen.gen_point(rng, gen.MEAS, False)
            spec["tags"]["big"] = rng.choice("xyz") * rng.choice([40_000, 60_000, 70_000])
            spec["tags"]["i"] = str(i)
            s.do({"op": "insert", "p": spec})
        res.count("large_file_bytes", len(s.file_bytes()))
        ops = [
            {"op": "update", "q": ("cmp", "tags", ("i",), "==", str(n - 1)), "args": {"fields": {"static": {"x": 123}}}},
            {"op": "remove", "q": ("cmp", "tags", ("i",), "==", str(n - 2))},
            {"op": "update", "q": ("cmp", "tags", ("i",), "==", str(n // 2)), "args": {"tags": {"static": {"k": "changed"}}}},
            {"op": "insert", "p": dict(gen.gen_point(rng, gen.MEAS, False), tags={"big": "w" * 50_000})},
            {"op": "remove", "q": ("cmp", "tags", ("i",), "==", "0")},
            {"op": "update_all", "args": {"unset_tags": "big"}},
        ]
        for op in ops:
            old = [p.copy() for p in s.model.points]
            mon = SnapshotMonitor(s.path)
            hub.monitor = mon
            hub.k = 0
            with ioproxy.Installed(hub):
                st = s.db.storage
                ioproxy.wrap_open_handles(hub, st)
                try:
                    out = s.do(op)
                finally:
                    ioproxy.unwrap_handles(st)
            mon.final()
            hub.monitor = ioproxy.NullMonitor()
            res.count("large_file_ops")
            if out.exc is not None or not out.agrees():
                res.count("op_itself_misbehaved_skipped")
                return
            new = [p.copy() for p in s.model.points]
            # keep distinct snapshots only (each is more than a megabyte)
            seen, snaps = set(), []
            for snap in mon.snaps:
                label, data = snap[0], snap[1]
                key = None if data is None else (h64(data), tuple(sorted(snap[2])))
                if key not in seen:
                    seen.add(key)
                    snaps.append(snap)
            mon.snaps = snaps
            if not check_snapshots(res, s, op, old, new, mon, scratch, origin="proxy"):
                return
    finally:
        s.discard()


def run(res, tier, seed, shard, nshards):
    res.rule = (
        "seeded histories on a CSV database (flush_on_insert=True, auto_index on/off); for every mutating op the database "
        "file is snapshotted through a separate kernel-level read before each I/O call made by tinyflux.storages and after "
        "the last; every distinct snapshot is decoded by an independent reader and by a fresh TinyFlux(access_mode='r') and "
        "must equal the old or the new contents (insert_multiple: old + prefix); a sample of (history, op) pairs is repeated "
        "in a child process that strace kills with SIGKILL at the k-th syscall touching the database, for every k; "
        "distinct_nontrivial = distinct (contents, op, arguments, I/O call sequence)"
    )
    kill_budget = [N_KILL[tier]]
    with Scratch("c12") as scratch:
        for ci, cfg in enumerate(CONFIGS):
            for h in range(N_HIST[tier]):
                rng = rng_for("C12", tier, seed, shard, ci, h)
                run_history(res, cfg, scratch, rng, h, kill_budget)
        for h in range(1 if tier == "quick" else 6):
            if tier == "quick" and shard % 4 != 0:
                break
            run_large_file(res, CONFIGS[(shard // 4 + h) % 2], scratch, rng_for("C12", tier, seed, shard, "large", h))
    if not sysmon.available():
        res.notes.append("strace sub-tier skipped: " + sysmon.why_unavailable())
    res.require("proxy.crash_points")
    res.require("proxy.state.old")
    res.require("proxy.state.new")
    for k in ("insert", "update", "remove"):
        res.require(f"ops.{k}")
    res.assumptions += [
        "crash points are I/O call boundaries (and, in the strace sub-tier, syscall boundaries): a torn single write(2) is not "
        "enumerated - process death cannot tear a completed write(2)",
        "process death, not power loss: data handed to the kernel survives",
    ]


def finalize(res, tier):
    res.require("large_file_ops")
    res.require("histories_through_a_symlink")
    res.require("mixed_exact_and_scan_queries")
    res.require("ops_with_an_unfinished_iteration_held")
    if sysmon.available():
        res.require("kill.crash_points")


def replay(res, rep):
    print("C12 replay: re-run ./check C12 with the seed recorded in the evidence; the replay file lists the op log and the crash boundary")
