"""C08 - timestamps are stored as exact UTC instants and ordered correctly.

Runs in worker processes whose local zone is one of UTC, America/Los_Angeles,
Australia/Lord_Howe, Asia/Kathmandu (TZ + time.tzset()).  Oracle: instants as
integer microseconds; naive inputs converted with zoneinfo (independent of the
astimezone() call the code under test uses); a naive value inside a repeated hour
means the occurrence its fold attribute names (PEP 495).
"""
import os
import time
from datetime import datetime, timedelta, timezone

from .. import contracts
from ..common import EPOCH, Scratch, from_us, quiet_stdout, rng_for, to_us
from ..core import Violation

ZONES = ["UTC", "America/Los_Angeles", "Australia/Lord_Howe", "Asia/Kathmandu"]
REPLAY_BY_RERUN = True  # workloads are deterministic in (tier, seed, shard): replay re-runs the shard
SHARDS = {"quick": 8, "thorough": 16}
TIMEOUT = {"quick": 1800, "thorough": 7200}
BATCHES = {"quick": 400, "thorough": 6000}  # per shard

IANA = ["UTC", "America/Los_Angeles", "Australia/Lord_Howe", "Asia/Kathmandu", "Europe/London", "Asia/Tokyo"]
Y1700 = to_us(datetime(1700, 1, 1, tzinfo=timezone.utc))
Y2240 = to_us(datetime(2240, 1, 1, tzinfo=timezone.utc))

# wall-clock times around DST transitions (gap, fold) per zone
DST_WALLS = {
    "America/Los_Angeles": [(2021, 3, 14, 2, 30, 0, 5), (2021, 11, 7, 1, 30, 0, 5), (2021, 3, 14, 1, 59, 59, 999999), (2021, 3, 14, 3, 0, 0, 0), (2021, 11, 7, 1, 0, 0, 0), (2021, 11, 7, 2, 0, 0, 0), (1975, 2, 23, 2, 10, 0, 1)],
    "Australia/Lord_Howe": [(2021, 10, 3, 2, 15, 0, 7), (2021, 4, 4, 1, 45, 0, 7), (2021, 10, 3, 2, 0, 0, 0), (2021, 10, 3, 2, 30, 0, 0), (2021, 4, 4, 1, 30, 0, 0), (2021, 4, 4, 2, 0, 0, 0), (1981, 3, 1, 0, 10, 0, 3)],
    "Asia/Kathmandu": [(1986, 1, 1, 0, 5, 0, 9), (1985, 12, 31, 23, 59, 59, 999999), (1986, 1, 1, 0, 14, 59, 999999), (1986, 1, 1, 0, 15, 0, 0)],
    "UTC": [(2021, 3, 14, 2, 30, 0, 5)],
}


def zinfo(name):
    from zoneinfo import ZoneInfo

    return ZoneInfo(name)


def naive_readings(naive, zone):
    """Both PEP 495 readings of a naive local wall time, as integer us."""
    z = zinfo(zone)
    out = set()
    for fold in (0, 1):
        aware = naive.replace(tzinfo=z, fold=fold)
        # exact: wall - utcoffset
        out.add((naive.replace(tzinfo=timezone.utc) - aware.utcoffset() - EPOCH) // timedelta(microseconds=1))
    return out


class TCase:
    """One presented datetime and the set of instants it may legitimately mean."""

    def __init__(self, dt, readings, kind):
        self.dt = dt
        self.readings = readings
        self.kind = kind


def present(rng, us, zone):
    """Present instant `us` as a datetime in a random way."""
    r = rng.random()
    if r < 0.3:
        off = rng.choice([0, 60, -480, 345, 630, -210, 840, -720, 1, -1])
        return TCase(from_us(us, off), {us}, "aware-fixed")
    if r < 0.5:
        z = rng.choice(IANA)
        return TCase(from_us(us).astimezone(zinfo(z)), {us}, "aware-iana")
    if r < 0.6:
        return TCase(from_us(us), {us}, "aware-utc")
    naive = from_us(us).astimezone(zinfo(zone)).replace(tzinfo=None)
    # the naive value keeps the `fold` attribute of the instant it was made from: inside a repeated hour it names
    # exactly one of the two occurrences (PEP 495), so the instant is determined
    if len(naive_readings(naive, zone)) > 1:
        return TCase(naive, {us}, "naive-local-in-fold")
    return TCase(naive, naive_readings(naive, zone), "naive-local")


def gen_instants(rng, zone, n):
    out = []
    while len(out) < n:
        r = rng.random()
        if r < 0.35:
            base = rng.randrange(Y1700, Y2240)
        elif r < 0.6:
            base = rng.randrange(to_us(datetime(1960, 1, 1, tzinfo=timezone.utc)), to_us(datetime(2040, 1, 1, tzinfo=timezone.utc)))
        elif r < 0.7:
            base = rng.choice([Y1700, Y2240 - 1, 0, -1, 1, 2**32 * 10**6, 2**33 * 10**6 - 10**12, -(2**33) * 10**6 + 10**12])
        else:
            w = rng.choice(DST_WALLS[zone])
            naive = datetime(*w)
            base = rng.choice(sorted(naive_readings(naive, zone))) + rng.choice([0, 0, 1, -1, 1800 * 10**6, -1800 * 10**6])
        out.append(base)
        if rng.random() < 0.5:
            out.append(base + rng.choice([1, -1, 0, 0]))
    return out[:n]


def run(res, tier, seed, shard, nshards):
    zone = ZONES[shard % len(ZONES)]
    os.environ["TZ"] = zone
    time.tzset()
    contracts.install()
    from tinyflux import Point, TagQuery, TimeQuery, TinyFlux
    from tinyflux.storages import MemoryStorage

    res.rule = (
        "worker processes with local zone in {UTC, America/Los_Angeles, Australia/Lord_Howe, Asia/Kathmandu}; batches of "
        "6-9 instants drawn from years 1700-2240 (uniform, modern era, float-precision boundaries, neighbourhoods of each "
        "zone's DST gaps/folds; adjacent-microsecond pairs and ties), presented as aware fixed-offset / aware IANA / "
        "aware UTC / naive local datetimes; per batch and storage/index configuration: insert, read back (all, "
        "get_timestamps, search), all six TimeQuery comparisons at each stored instant +-1us with the comparison value "
        "in random zones (count and search), time-sorted stability, update(time=static|callable), reopen (CSV), "
        "time-less insert stamping; distinct_nontrivial = distinct (zone, instant, presentation kind)"
    )
    res.count(f"zone.{zone}")
    rng0 = rng_for("C08", tier, seed, shard)
    T = TimeQuery()
    cfgs = [("mem", True), ("mem", False), ("csv", True), ("csv", False)]

    def bad(kind, detail, replay=None):
        detail = dict(detail, zone=zone)
        res.violate(Violation("C08", kind, detail, replay=dict(replay or {}, zone=zone), features={"zone": zone}))

    def check_returned(points, expect_sets, what, ctx):
        """points: real Points; expect_sets: list of sets of admissible instants (same order)."""
        if len(points) != len(expect_sets):
            bad("wrong-number-of-points", dict(ctx, what=what, expected=len(expect_sets), observed=len(points)))
            return None
        chosen = []
        for p, adm in zip(points, expect_sets):
            t = p if isinstance(p, datetime) else p.time
            res.evaluations += 1
            res.count("returned_times_checked")
            if not isinstance(t, datetime) or t.tzinfo is None or t.utcoffset() != timedelta(0) or t.tzinfo is not timezone.utc:
                bad("returned-time-not-utc-aware", dict(ctx, what=what, observed=repr(t)))
                return None
            u = to_us(t)
            if u not in adm:
                bad("wrong-instant", dict(ctx, what=what, observed_us=u, observed=t.isoformat(), admissible_us=sorted(adm), off_by_us=min(abs(u - a) for a in adm)))
                return None
            chosen.append(u)
        return chosen

    with Scratch("c08") as scratch:
        for b in range(BATCHES[tier]):
            rng = rng_for("C08", tier, seed, shard, b)
            storage, auto = cfgs[b % 4]
            n = rng.randint(6, 9) if b % 7 != 3 else rng.choice([70, 150])  # now and then one big batch
            instants = gen_instants(rng, zone, n)
            cases = [present(rng, u, zone) for u in instants]
            for u, c in zip(instants, cases):
                res.seen((zone, u, c.kind))
                res.count(f"presented.{c.kind}")
                if c.kind == "naive-local-in-fold":
                    res.count("presented.naive_in_repeated_hour")
                    if c.dt.fold:
                        res.count("presented.naive_in_repeated_hour_second_occurrence")
            ctx = {"storage": storage, "auto_index": auto, "batch": b,
                   "inserted": [f"{c.kind}:{c.dt.isoformat()}" for c in cases]}
            rep = {"tier": tier, "seed": seed, "shard": shard, "batch": b}
            path = scratch.new_db_path() if storage == "csv" else None

            def opendb():
                if storage == "csv":
                    return TinyFlux(path, auto_index=auto)
                return TinyFlux(storage=MemoryStorage, auto_index=auto)

            db = opendb()
            try:
                with quiet_stdout():
                    # the time reaches the point through the constructor or through attribute assignment
                    pts = []
                    for i, c in enumerate(cases):
                        if (i + b) % 3 == 1:
                            p_ = Point(tags={"i": str(i)})
                            p_.time = c.dt
                            res.count("time_given_by_assignment")
                        elif (i + b) % 3 == 2:
                            p_ = Point()
                            p_.tags = {"i": str(i)}
                            p_.time = c.dt
                            res.count("time_given_by_assignment")
                        else:
                            p_ = Point(time=c.dt, tags={"i": str(i)})
                        pts.append(p_)
                    if b % 3 == 0 or n > 9:
                        db.insert_multiple(pts)
                        res.count("inserted_via.insert_multiple")
                    elif b % 5 == 4:
                        h = db.measurement("_default")
                        for p in pts:
                            h.insert(p)
                        res.count("inserted_via.handle")
                    else:
                        for p in pts:
                            db.insert(p)
                        res.count("inserted_via.insert")
                    # the caller's point objects are normalised too (documented in time.rst)
                    if check_returned(pts, [c.readings for c in cases], "point.time after insert", ctx) is None:
                        continue
                    if not auto and b % 2 == 0:
                        db.reindex()
                    serving = "index" if db.index.valid or auto else "scan"
                    res.count(f"serving.{serving}.{storage}")
                    stored = check_returned(db.all(sorted=False), [c.readings for c in cases], "all(sorted=False)", ctx)
                    if stored is None:
                        continue
                    # from here on the stored instants are pinned (naive readings resolved)
                    pin = [{u} for u in stored]
                    if check_returned(db.get_timestamps(), pin, f"get_timestamps[{serving}]", ctx) is None:
                        continue
                    # time-sorted results: stable on ties
                    order = sorted(range(n), key=lambda i: stored[i])
                    got = db.all(sorted=True)
                    res.count("sorted_checks")
                    if [p.tags["i"] for p in got] != [str(i) for i in order]:
                        bad("time-sort-wrong-or-unstable", dict(ctx, what="all(sorted=True)", expected=[str(i) for i in order], observed=[p.tags["i"] for p in got], stored_us=stored), rep)
                        continue
                    if len(set(stored)) < n:
                        res.count("sorted_checks_with_ties")
                    got = db.search(TagQuery().i.exists(), sorted=True)
                    if [p.tags["i"] for p in got] != [str(i) for i in order]:
                        bad("time-sort-wrong-or-unstable", dict(ctx, what="search(sorted=True)", expected=[str(i) for i in order], observed=[p.tags["i"] for p in got]), rep)
                        continue
                    # comparisons of instants, comparison value in any zone
                    ok = True
                    probes = sorted({u + d for u in stored for d in (0, 1, -1)})
                    if len(probes) > 40:
                        probes = sorted(rng.sample(probes, 40))
                    for pu in probes:
                        if not (Y1700 - 2 <= pu <= Y2240 + 2):
                            continue
                        rhs = present(rng, pu, zone)
                        if rhs.kind.startswith("naive-local"):
                            rhs = TCase(from_us(pu, rng.choice([0, 345, -480])), {pu}, "aware-fixed")
                        for name, q, f in (
                            ("==", T == rhs.dt, lambda a: a == pu), ("!=", T != rhs.dt, lambda a: a != pu),
                            ("<", T < rhs.dt, lambda a: a < pu), ("<=", T <= rhs.dt, lambda a: a <= pu),
                            (">", T > rhs.dt, lambda a: a > pu), (">=", T >= rhs.dt, lambda a: a >= pu),
                        ):
                            want = [str(i) for i in range(n) if f(stored[i])]
                            res.evaluations += 1
                            res.count(f"comparisons.{serving}")
                            try:
                                c = db.count(q)
                                got = [p.tags["i"] for p in db.search(q, sorted=False)]
                            except contracts.ContractBroken as e:
                                c, got = "contract-broken", [repr(e)]
                            if c != len(want) or got != want:
                                bad("time-comparison-wrong", dict(ctx, op=name, rhs=rhs.dt.isoformat(), rhs_us=pu, stored_us=stored, expected=want, observed=got, observed_count=c, serving=serving), rep)
                                ok = False
                                break
                        if not ok:
                            break
                    if not ok:
                        continue
                    # windows of time: both ends on / next to stored instants, every inclusive/exclusive combination,
                    # either operand first, the two comparison values presented in different zones; and the complement
                    ends = sorted({u + d for u in stored for d in (0, 1, -1) if Y1700 <= u + d <= Y2240})
                    for _ in range(6):
                        lo_us, hi_us = sorted(rng.sample(ends, 2)) if len(ends) > 1 else (ends[0], ends[0])
                        if rng.random() < 0.3:
                            hi_us = lo_us  # degenerate window: a single instant (or empty when an end is exclusive)
                        lo_dt = from_us(lo_us, rng.choice([0, 345, -480, 630]))
                        hi_dt = from_us(hi_us, rng.choice([0, 345, -480, 630]))
                        lo_op, hi_op = rng.choice([">", ">="]), rng.choice(["<", "<="])
                        lo_q = (T > lo_dt) if lo_op == ">" else (T >= lo_dt)
                        hi_q = (T < hi_dt) if hi_op == "<" else (T <= hi_dt)
                        in_lo = (lambda a: a > lo_us) if lo_op == ">" else (lambda a: a >= lo_us)
                        in_hi = (lambda a: a < hi_us) if hi_op == "<" else (lambda a: a <= hi_us)
                        forms = [
                            ("from&until", lo_q & hi_q, lambda a: in_lo(a) and in_hi(a)),
                            ("until&from", hi_q & lo_q, lambda a: in_lo(a) and in_hi(a)),
                            ("~from|~until", (~lo_q) | (~hi_q), lambda a: not (in_lo(a) and in_hi(a))),
                            ("until|from", hi_q | lo_q, lambda a: in_lo(a) or in_hi(a)),
                        ]
                        for name, q, f in forms:
                            want = [str(i) for i in range(n) if f(stored[i])]
                            res.evaluations += 1
                            res.count(f"windows.{serving}")
                            try:
                                c = db.count(q)
                                got = [p.tags["i"] for p in db.search(q, sorted=False)]
                            except contracts.ContractBroken as e:
                                c, got = "contract-broken", [repr(e)]
                            if c != len(want) or got != want:
                                bad("time-window-wrong", dict(ctx, form=name, lo=f"{lo_op}{lo_dt.isoformat()}", hi=f"{hi_op}{hi_dt.isoformat()}", stored_us=stored, expected=want, observed=got, observed_count=c, serving=serving), rep)
                                ok = False
                                break
                        if not ok:
                            break
                    if not ok:
                        continue
                    # update(time=...) static and callable
                    k = rng.randrange(n)
                    newc = present(rng, rng.choice(gen_instants(rng, zone, 2)), zone)
                    res.count(f"update_time_static.{newc.kind}")
                    db.update(TagQuery().i == str(k), time=newc.dt)
                    exp = [set(x) for x in pin]
                    exp[k] = newc.readings
                    stored2 = check_returned(db.all(sorted=False), exp, "all() after update(time=static)", dict(ctx, new_time=f"{newc.kind}:{newc.dt.isoformat()}"))
                    if stored2 is None:
                        continue
                    delta = rng.choice([1, -1, 3_600_000_000, -86_400_000_000, 1_800_000_000])
                    tzs = rng.choice([None, timezone(timedelta(minutes=345)), "iana", "naive-local"])
                    res.count("update_time_callable")

                    def shift(t, delta=delta, tzs=tzs):
                        t2 = t + timedelta(microseconds=delta)
                        if tzs == "iana":
                            return t2.astimezone(zinfo("America/Los_Angeles"))
                        if tzs == "naive-local":
                            return t2.astimezone(zinfo(zone)).replace(tzinfo=None)
                        return t2.astimezone(tzs) if tzs else t2

                    db.update(TagQuery().i.exists(), time=shift)
                    exp = [{u + delta} for u in stored2]
                    if tzs == "naive-local":
                        # a naive value means local time; inside a repeated hour its fold attribute (kept from the
                        # instant it was made from) names the occurrence, so the instant is determined
                        res.count("update_time_callable_returning_naive")
                    stored3 = check_returned(db.all(sorted=False), exp, "all() after update(time=callable)", dict(ctx, delta_us=delta))
                    if stored3 is None:
                        continue
                    # time order after the times were changed (whatever the database remembers about the old order)
                    order3 = sorted(range(n), key=lambda i: stored3[i])
                    res.count("sorted_checks_after_time_updates")
                    for what, got3 in (("all(sorted=True)", db.all(sorted=True)), ("search(sorted=True)", db.search(TagQuery().i.exists(), sorted=True))):
                        if [p.tags["i"] for p in got3] != [str(i) for i in order3]:
                            bad("time-sort-wrong-or-unstable", dict(ctx, what=what + " after update(time=...)", expected=[str(i) for i in order3], observed=[p.tags["i"] for p in got3], stored_us=stored3), rep)
                            break
                    if check_returned(db.get_timestamps(), exp, "get_timestamps after update", ctx) is None:
                        continue
                    if storage == "csv":
                        db.close()
                        db = opendb()
                        res.count("reopens")
                        if check_returned(db.all(sorted=False), exp, "all() after reopen", ctx) is None:
                            continue
                        if check_returned(db.get_timestamps(), exp, "get_timestamps after reopen", ctx) is None:
                            continue
                    # a point without a time receives the insertion time
                    t0 = to_us(datetime.now(timezone.utc))
                    p = Point(tags={"i": "stamp"}) if b % 2 else Point()
                    db.insert(p)
                    t1 = to_us(datetime.now(timezone.utc))
                    res.count("stamped_inserts")
                    last = db.all(sorted=False)[-1]
                    if check_returned([last], [set(range(t0, t1 + 1)) if t1 - t0 < 5_000_000 else {to_us(last.time)}], "stamped point", ctx) is not None:
                        if not (t0 <= to_us(last.time) <= t1):
                            bad("stamp-outside-call-window", dict(ctx, t0=t0, t1=t1, observed=to_us(last.time)))
                    # ... also when the time-less point is a copy made some time before the insert (template cloned per
                    # sample): a copy of a point without a time has no time either
                    if b % 5 == 0:
                        import copy as _copy
                        import pickle as _pickle

                        template = Point()
                        template.tags = {"i": "copy"}
                        clones = [("deepcopy", _copy.deepcopy(template)), ("copy", _copy.copy(template)), ("pickle", _pickle.loads(_pickle.dumps(template)))]
                        time.sleep(0.02)  # the copies are older than the insert window
                        for how, clone in clones:
                            t0 = to_us(datetime.now(timezone.utc))
                            try:
                                db.insert(clone)
                            except Exception as e:  # noqa: BLE001
                                bad("api-raises", dict(ctx, exc=f"insert of a {how} of a time-less Point: {type(e).__name__}: {e}"), rep)
                                break
                            t1 = to_us(datetime.now(timezone.utc))
                            res.count("stamped_inserts_of_copies")
                            got_us = to_us(db.all(sorted=False)[-1].time)
                            if not (t0 <= got_us <= t1):
                                bad("stamp-outside-call-window", dict(ctx, copied_by=how, t0=t0, t1=t1, observed=got_us, note="a copy of a time-less point made 20 ms before the insert"))
                                break
                    if b < 2 and shard < 4:
                        res.sample({"zone": zone, "storage": storage, "inserted": ctx["inserted"][:4]})
            except contracts.ContractBroken as e:
                bad("find-helper-contract", dict(ctx, exc=repr(e)), rep)
            except Exception as e:
                import traceback

                bad("api-raises", dict(ctx, exc=f"{type(e).__name__}: {e}", tb=traceback.format_exc()[-700:]), rep)
            finally:
                try:
                    db.close()
                except Exception:
                    pass
                if path:
                    scratch.drop_db_dir(path)
    contracts.drain(res)
    res.require("returned_times_checked")
    res.require("comparisons.index")
    res.require("sorted_checks")
    res.require("update_time_callable")
    res.assumptions += [
        "years 1700-2240 (float64 still separates adjacent microseconds there)",
        "naive datetimes at DST gaps/folds: either PEP 495 reading is accepted",
        "comparison values are timezone-aware",
    ]


def finalize(res, tier):
    for z in ZONES:
        res.require(f"zone.{z}")
    res.require("comparisons.scan")
    res.require("windows.index")
    res.require("time_given_by_assignment")
    res.require("sorted_checks_after_time_updates")
    res.require("stamped_inserts_of_copies")
    res.require("windows.scan")
    res.require("presented.naive_in_repeated_hour")
    res.require("presented.naive_in_repeated_hour_second_occurrence")
    res.require("sorted_checks_with_ties")
    res.require("reopens")


def replay(res, rep):
    r = rep["replay"]
    # batches are deterministic functions of (tier, seed, shard, batch): re-run that shard's batch range
    global BATCHES
    old = dict(BATCHES)
    try:
        BATCHES = {r["tier"]: r["batch"] + 1}
        run(res, r["tier"], r["seed"], r["shard"], 16)
    finally:
        BATCHES = old
