"""C14 - no API path lets an invalid value into the database.

Events: exception raised at the entry point; a *type sentinel at the storage
boundary* (storage.append is wrapped on the instance; every item about to be
stored - also into temporary storage - is checked with an independent validity
predicate); the same predicate on every point any read returns afterwards.
Battery: entry points x slots x wrongly typed values x {static, via callable},
exhaustive product, both storages, auto_index on/off.
"""
from datetime import datetime, timezone

from ..common import Scratch, from_us, quiet_stdout
from ..core import Violation
from ..gen import BASE_US

REPLAY_BY_RERUN = True  # workloads are deterministic in (tier, seed, shard): replay re-runs the shard
SHARDS = {"quick": 4, "thorough": 4}
TIMEOUT = {"quick": 1800, "thorough": 7200}

import datetime as _dt
from decimal import Decimal
from fractions import Fraction

WRONG = {
    "decimal": Decimal("1.5"), "fraction": Fraction(1, 2), "complex": 1 + 2j, "date": _dt.date(2020, 1, 2),
    "time_of_day": _dt.time(1, 2, 3), "timedelta": _dt.timedelta(seconds=5), "set": frozenset({"a"}),
    "int": 5, "float": 2.5, "bool": True, "bytes": b"x", "none": None, "list": ["a"], "dict": {"a": 1},
    "str": "abc", "numstr": "12", "tuple": ("a",), "false": False, "zero": 0,
}
# which wrong values are invalid for which slot
INVALID_FOR = {
    "time": ["int", "float", "bool", "bytes", "list", "dict", "str", "numstr", "tuple", "date", "time_of_day", "timedelta", "none"],
    "measurement": ["int", "float", "bool", "bytes", "list", "dict", "tuple", "none"],
    "tag_key": ["int", "float", "bool", "bytes", "none", "tuple", "set", "date"],
    "tag_value": ["int", "float", "bool", "bytes", "list", "dict", "tuple", "false", "zero", "decimal", "date"],
    "field_key": ["int", "float", "bool", "bytes", "none", "tuple", "set", "decimal"],
    "field_value": ["bool", "bytes", "list", "dict", "str", "numstr", "tuple", "false", "decimal", "fraction", "complex", "timedelta"],
}
SLOTS = list(INVALID_FOR)


def valid_point(p):
    """Independent validity predicate; returns None or the reason."""
    from tinyflux import Point

    if not isinstance(p, Point):
        return f"not a Point: {type(p).__name__}"
    if not isinstance(p.time, datetime):
        return f"time {p.time!r}"
    if not isinstance(p.measurement, str):
        return f"measurement {p.measurement!r}"
    if not isinstance(p.tags, dict) or not isinstance(p.fields, dict):
        return "tags/fields not dict"
    for k, v in p.tags.items():
        if not isinstance(k, str):
            return f"tag key {k!r}"
        if v is not None and not isinstance(v, str):
            return f"tag value {k!r}: {v!r}"
    for k, v in p.fields.items():
        if not isinstance(k, str):
            return f"field key {k!r}"
        if v is not None and (isinstance(v, bool) or not isinstance(v, (int, float))):
            return f"field value {k!r}: {v!r}"
    return None


def valid_row(row):
    """Validity of a CSV row about to be stored (strings in the documented layout)."""
    try:
        if not all(isinstance(c, str) for c in row):
            return f"non-string cell in {row!r}"
        datetime.fromisoformat(row[0])
        i = 2
        in_fields = False
        while i < len(row):
            k, v = row[i], row[i + 1]
            if k.startswith("_field_") or k.startswith("f_"):
                in_fields = True
                if v != "_none":
                    float(v)
            elif in_fields or not (k.startswith("_tag_") or k.startswith("t_")):
                return f"bad key cell {k!r}"
            i += 2
    except Exception as e:
        return f"{type(e).__name__}: {e} in {row!r}"
    return None


class Sentinel:
    def __init__(self, db, is_csv):
        self.bad = []
        self.seen = 0
        st = db.storage
        orig = st.append
        sentinel = self

        def append(items, temporary=False):
            for it in items:
                sentinel.seen += 1
                why = valid_row(it) if is_csv else valid_point(it)
                if why:
                    sentinel.bad.append(why)
            return orig(items, temporary=temporary) if temporary else orig(items)

        try:
            st.append = append
        except AttributeError:
            # a storage class with __slots__ has no per-instance method slot: give this one instance a subclass
            cls = type(st)
            st.__class__ = type("Watched" + cls.__name__, (cls,), {"__slots__": (), "append": lambda self_, items, temporary=False: append(items, temporary)})


def make_containers(slot, bad):
    """Variants of (tags, fields) dict pairs carrying `bad` in `slot` (or [(None, None)])."""
    if slot == "tag_key":
        return [({bad: "v"}, None), ({bad: None}, None), ({"k": "a", bad: ""}, None)]
    if slot == "tag_value":
        return [({"k": bad}, None), ({"brand_new": bad}, None), ({"j": bad, "k": "a"}, None)]
    if slot == "field_key":
        return [(None, {bad: 1}), (None, {bad: None}), (None, {"x": 1, bad: 0.5})]
    if slot == "field_value":
        return [(None, {"x": bad}), (None, {"brand_new": bad}), (None, {"y": bad, "x": 1})]
    return [(None, None)]


def entry_calls(slot, bad):
    """Yield (entry point name, callable(db) that supplies `bad` in `slot`)."""
    hashable = True
    try:
        hash(bad)
    except TypeError:
        hashable = False
    if slot in ("tag_key", "field_key") and not hashable:
        return
    for variant, (tags, fields) in enumerate(make_containers(slot, bad)):
        yield from _entry_calls(slot, bad, tags, fields, variant)


def _entry_calls(slot, bad, tags, fields, variant):
    from tinyflux import MeasurementQuery, Point, TagQuery

    Q = TagQuery().k.exists()
    ALL = MeasurementQuery().noop()
    v = f"#{variant}" if variant else ""

    def ctor(db):
        if slot == "time":
            p = Point(time=bad)
        elif slot == "measurement":
            p = Point(measurement=bad)
        elif tags is not None:
            p = Point(tags=tags)
        else:
            p = Point(fields=fields)
        db.insert(p)

    yield "Point()+insert" + v, ctor

    def assign(db):
        p = Point(time=from_us(BASE_US), tags={"k": "a"}, fields={"x": 1})
        if slot == "time":
            p.time = bad
        elif slot == "measurement":
            p.measurement = bad
        elif tags is not None:
            p.tags = tags
        else:
            p.fields = fields
        db.insert(p)

    yield "attribute-assignment+insert" + v, assign

    def ctor_private_spelling(db):
        # the same value under the name of the private attribute that holds it: not a documented keyword
        if slot == "time":
            p = Point(_time=bad)
        elif slot == "measurement":
            p = Point(_measurement=bad)
        elif tags is not None:
            p = Point(_tags=tags)
        else:
            p = Point(_fields=fields)
        db.insert(p)

    yield "Point(_private=)+insert" + v, ctor_private_spelling

    def assign_rejected_then_insert(db):
        # the assignment is refused (as it should be), the caller carries on with the point it had: what gets stored?
        p = Point(time=from_us(BASE_US), tags={"k": "a"}, fields={"x": 1})
        try:
            if slot == "time":
                p.time = bad
            elif slot == "measurement":
                p.measurement = bad
            elif tags is not None:
                p.tags = tags
            else:
                p.fields = fields
        except (ValueError, TypeError):
            pass
        db.insert(p)
        raise ValueError("(harness) the assignment was the call under test; the insert may succeed")

    yield "attribute-assignment-refused-then-insert" + v, assign_rejected_then_insert

    if slot == "measurement":
        yield "insert(measurement=)", lambda db: db.insert(Point(time=from_us(BASE_US)), measurement=bad)
        yield "insert_multiple(measurement=)", lambda db: db.insert_multiple([Point(time=from_us(BASE_US))], measurement=bad)

    def kw_static():
        if slot == "time":
            return {"time": bad}
        if slot == "measurement":
            return {"measurement": bad}
        if tags is not None:
            return {"tags": tags}
        return {"fields": fields}

    def kw_callable():
        if slot == "time":
            return {"time": lambda t: bad}
        if slot == "measurement":
            return {"measurement": lambda m: bad}
        if tags is not None:
            return {"tags": lambda t: dict(tags)}
        return {"fields": lambda f: dict(fields)}

    def kw_callable_merged():
        # the idiom from the docs: return the old mapping plus the change
        if tags is not None:
            return {"tags": lambda t: {**t, **tags}}
        return {"fields": lambda f: {**f, **fields}}

    def kw_callable_stateful():
        # one output mapping reused for every point: valid on the first call, invalid from the second call on
        if tags is not None:
            out, good, key = {}, {"z": "ok"}, "tags"
            bad_map = tags
        else:
            out, good, key = {}, {"z": 1}, "fields"
            bad_map = fields
        n = [0]

        def f(old):
            n[0] += 1
            out.clear()
            out.update(good if n[0] == 1 else bad_map)
            return out

        return {key: f}

    def kw_callable_inplace(returns):
        # the callable edits the mapping it was handed and returns that same object / nothing at all
        def mk():
            bad_map, key = (tags, "tags") if tags is not None else (fields, "fields")

            def f(old):
                try:
                    old.update(bad_map)
                except Exception:
                    pass
                return old if returns == "arg" else None

            return {key: f}

        return mk

    def kw_static_with_valid_other():
        # the invalid value sits next to VALID static arguments of the other kinds in the same call
        kw = kw_static()
        extra = {"time": from_us(BASE_US + 5), "measurement": "m9", "tags": {"ok": "1"}, "fields": {"ok": 1}}
        for k_, v_ in extra.items():
            kw.setdefault(k_, v_)
        return kw

    styles = [("static", kw_static), ("callable", kw_callable)]
    if tags is not None or fields is not None:
        styles.append(("callable", kw_callable_merged))
        styles.append(("callable", kw_callable_stateful))
        styles.append(("callable", kw_callable_inplace("arg")))
        styles.append(("callable", kw_callable_inplace("none")))
    styles.append(("static", kw_static_with_valid_other))
    for si, (style, mk) in enumerate(styles):
        sv = v + ("+valid-others" if mk is kw_static_with_valid_other else "+old" if si == 2 else "+stateful" if si == 3 else "+inplace" if si == 4 else "+inplace-none" if si == 5 else "")
        yield f"update({style}){sv}", lambda db, mk=mk: db.update(Q, **mk())
        yield f"update_all({style}){sv}", lambda db, mk=mk: db.update_all(**mk())
        yield f"handle.update({style}){sv}", lambda db, mk=mk: db.measurement("m0").update(Q, **mk())
        yield f"handle.update_all({style}){sv}", lambda db, mk=mk: db.measurement("m0").update_all(**mk())


def whole_container_calls():
    """Wrong type for the whole tags / fields container, static and via callable."""
    from tinyflux import Point, TagQuery

    Q = TagQuery().k.exists()
    for name in ("int", "str", "list", "bytes", "bool", "tuple"):
        bad = WRONG[name]
        for attr in ("tags", "fields"):
            yield f"Point({attr}=<{name}>)", attr, name, (lambda db, attr=attr, bad=bad: db.insert(Point(**{attr: bad})))
            yield f"update({attr}=<{name}>)", attr, name, (lambda db, attr=attr, bad=bad: db.update(Q, **{attr: bad}))
            yield f"update({attr}=callable-><{name}>)", attr, name, (lambda db, attr=attr, bad=bad: db.update(Q, **{attr: (lambda old: bad)}))
            yield f"update_all({attr}=callable-><{name}>)", attr, name, (lambda db, attr=attr, bad=bad: db.update_all(**{attr: (lambda old: bad)}))


def pair_list_calls():
    """tags/fields given as an iterable of (key, value) pairs instead of a mapping, carrying a wrongly typed entry."""
    from tinyflux import Point, TagQuery

    Q = TagQuery().k.exists()
    shapes = {
        "tags": [[("k", 5)], [(5, "v")], (("k", b"x"),), [("k", "ok"), ("j", 1.5)]],
        "fields": [[("x", True)], [(7, 1)], (("x", "abc"),), [("x", 1), ("y", [1])]],
    }
    for attr, variants in shapes.items():
        for i, bad in enumerate(variants):
            name = f"pairs#{i}"
            yield f"update({attr}=<{name}>)", attr, name, (lambda db, attr=attr, bad=bad: db.update(Q, **{attr: bad}))
            yield f"update({attr}=<iter {name}>)", attr, name, (lambda db, attr=attr, bad=bad: db.update(Q, **{attr: iter(bad)}))
            yield f"update_all({attr}=<{name}>)", attr, name, (lambda db, attr=attr, bad=bad: db.update_all(**{attr: bad}))
            yield f"handle.update({attr}=<{name}>)", attr, name, (lambda db, attr=attr, bad=bad: db.measurement("m0").update(Q, **{attr: bad}))
            yield f"Point({attr}=<{name}>)", attr, name, (lambda db, attr=attr, bad=bad: db.insert(Point(**{attr: bad})))


def run(res, tier, seed, shard, nshards):
    from tinyflux import Point, TinyFlux
    from tinyflux.storages import MemoryStorage

    res.rule = (
        "exhaustive product: entry points {Point()+insert, attribute assignment+insert, insert(measurement=), update / "
        "update_all / handle.update / handle.update_all with static value and with a callable returning the value} x "
        "slots {time, measurement, tag key, tag value, field key, field value} x wrongly typed values {int, float, bool, "
        "bytes, None, list, dict, str, numeric str, tuple, False, 0 where invalid for the slot} x {memory, CSV} x "
        "{auto_index on, off}; plus wrong types for the whole tags/fields container; distinct_nontrivial = distinct "
        "(entry point, slot, value kind, configuration) cases in which the value is invalid for the slot"
    )
    cfgs = [("mem", True), ("mem", False), ("csv", True), ("csv", False)]
    storage, auto = cfgs[shard % 4]
    cfg = f"{storage}/{'ai' if auto else 'noai'}"

    with Scratch("c14") as scratch:
        def fresh():
            path = scratch.new_db_path() if storage == "csv" else None
            db = TinyFlux(path, auto_index=auto) if path else TinyFlux(storage=MemoryStorage, auto_index=auto)
            db.insert_multiple([
                Point(time=from_us(BASE_US), measurement="m0", tags={"k": "a"}, fields={"x": 1}),
                Point(time=from_us(BASE_US + 5), measurement="m0", tags={"k": "b", "j": None}, fields={"x": 2.5, "y": None}),
                Point(time=from_us(BASE_US - 5), measurement="m1", tags={"k": "c"}, fields={}),
            ])
            return db, path

        def one_case(label, slot, vname, call, must_raise):
            db, path = fresh()
            sent = Sentinel(db, storage == "csv")
            exc = None
            res.evaluations += 1
            with quiet_stdout():
                try:
                    call(db)
                except Exception as e:
                    exc = e
            res.count(f"entry.{label.split('#')[0].split('+old')[0].split('+stateful')[0].split('+inplace')[0].split('+valid-others')[0]}")
            if "+inplace" in label:
                res.count("inplace_editing_callables")
            res.count("raised" if exc is not None else "returned")
            res.seen((label, slot, vname, cfg))
            if len(res.samples) < 5 and (res.evaluations % 97 == 1):
                res.sample({"config": cfg, "entry": label, "slot": slot, "value": f"{vname}={WRONG.get(vname)!r}",
                            "raised": None if exc is None else type(exc).__name__, "items_seen_by_storage_sentinel": sent.seen})
            detail = {"config": cfg, "entry": label, "slot": slot, "value": f"{vname}={WRONG.get(vname)!r}",
                      "exception": None if exc is None else f"{type(exc).__name__}: {exc}"[:200]}
            rep = {"entry": label, "slot": slot, "value": vname, "shard": shard}
            feats = {"entry": label, "slot": slot, "value": vname}
            try:
                if sent.bad:
                    res.violate(Violation("C14", "invalid-value-reached-storage", dict(detail, sentinel=sent.bad[:3]), replay=rep, features=feats))
                    return
                bad_read = None
                with quiet_stdout():
                    try:
                        pts = list(iter(db))
                    except Exception as e:
                        pts = []
                        bad_read = f"reading back raised {type(e).__name__}: {e}"
                for p in pts:
                    why = valid_point(p)
                    res.count("points_read_back_checked")
                    if why:
                        bad_read = why
                        break
                if bad_read:
                    res.violate(Violation("C14", "invalid-value-stored", dict(detail, read_back=bad_read), replay=rep, features=feats))
                    return
                if must_raise:
                    if exc is None:
                        res.violate(Violation("C14", "invalid-value-not-rejected", detail, replay=rep, features=feats))
                    elif not isinstance(exc, (ValueError, TypeError)):
                        res.violate(Violation("C14", "rejected-with-unexpected-exception", detail, replay=rep, features=feats))
                    else:
                        res.count("rejected_with_ValueError_or_TypeError")
                else:
                    res.count("falsy_wrong_value.raised" if exc is not None else "falsy_wrong_value.ignored")
            finally:
                db.close()
                if path:
                    scratch.drop_db_dir(path)

        n = 0
        for slot in SLOTS:
            for vname in INVALID_FOR[slot]:
                bad = WRONG[vname]
                for label, call in entry_calls(slot, bad):
                    n += 1
                    # a falsy wrong value given directly as an update argument means "argument not given"
                    falsy_arg = (not bad) and label.startswith(("update", "handle.update", "insert(", "insert_multiple(")) and "callable" not in label and slot in ("time", "measurement")
                    # a callable that edits its argument and returns None: rejecting the None or ignoring the edit are
                    # both fine - what is demanded is only that nothing invalid is stored
                    one_case(label, slot, vname, call, must_raise=not falsy_arg and "+inplace-none" not in label)
        for label, attr, vname, call in whole_container_calls():
            one_case(label, attr, vname, call, must_raise=True)
        for label, attr, vname, call in pair_list_calls():
            one_case(label, attr, vname, call, must_raise=True)
    res.exhaustive = True
    res.require("rejected_with_ValueError_or_TypeError")
    res.require("points_read_back_checked")
    res.require("entry.update(callable)")
    res.require("inplace_editing_callables")
    res.require("entry.handle.update_all(callable)")
    res.assumptions += [
        "invalid data is supplied through the public API (constructor, property setters, method arguments, callables); "
        "mutating a Point's dicts in place or writing private attributes is not an API path",
        "a falsy wrongly-typed value passed directly as update(time=...)/(measurement=...) means 'argument not given' "
        "(same as the documented None default): it must not be stored, raising is optional",
    ]


def replay(res, rep):
    r = rep["replay"]
    run(res, "quick", 0, r.get("shard", 0), 4)
