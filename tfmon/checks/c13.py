"""C13 - an I/O error during an operation is reported and corrupts nothing.

Fault enumeration: for every I/O call index k of every mutating op in sampled
histories on a CSV database, OSError(ENOSPC / EIO) is injected at call k before
the call takes effect (for flush / fsync / close also after it took effect).
Oracle: (1) the call raises an OSError to the caller; (2) the live object
afterwards either fails or answers consistently with what its own storage
iterates (C06 battery live index vs rebuild + len/all); (3) after close the file
decodes to the old or the new contents, and the database can be reopened and
written again.  A subset is repeated with real errnos injected by strace.
"""
import errno
import os
import shutil

from .. import csvcodec, ioproxy, qast, sysmon
from ..common import Scratch, from_us, quiet_stdout, rng_for, to_us
from ..core import Violation
from ..gen import BASE_US
from ..histories import Profile, gen_write_op
from ..model import MPoint
from ..session import Session, cfg_name, default_config, norm_points
from . import c06

REPLAY_BY_RERUN = True  # workloads are deterministic in (tier, seed, shard): replay re-runs the shard
SHARDS = {"quick": 8, "thorough": 16}
TIMEOUT = {"quick": 1800, "thorough": 7200}
N_HIST = {"quick": 3, "thorough": 40}
N_STRACE = {"quick": 1, "thorough": 8}
MUTATORS = {"insert", "insert_multiple", "update", "update_all", "remove", "remove_all", "drop_measurement"}
AFTER_EFFECT = {"flush", "fsync", "close"}  # the property's quantifier: only these can fail after having taken effect


class Injected(OSError):
    """Plain OSError subclass for most errnos; for EACCES/EPERM the exception is a PermissionError as the
    interpreter itself would raise (see `injected`)."""


class InjectedPermission(PermissionError):
    pass


def injected(err, msg):
    return (InjectedPermission if err in (errno.EACCES, errno.EPERM) else Injected)(err, msg)


class FaultAt(ioproxy.NullMonitor):
    def __init__(self, k, when, err):
        self.k = k
        self.when = when
        self.err = err
        self.hit = None

    def before(self, ev):
        if ev.k == self.k and self.when == "before":
            self.hit = ev
            raise injected(self.err, f"injected {errno.errorcode[self.err]} at {ev!r}")

    def after(self, ev):
        if ev.k == self.k and self.when == "after":
            self.hit = ev
            raise injected(self.err, f"injected {errno.errorcode[self.err]} after {ev!r}")


def wrap_handle(hub, s):
    ioproxy.wrap_open_handles(hub, s.db.storage)


def run_with_monitor(s, op, monitor, in_with_block=False):
    hub = ioproxy.IOHub()
    hub.primary = s.path
    hub.monitor = monitor
    with ioproxy.Installed(hub):
        wrap_handle(hub, s)
        out = s.do_in_with_block(op) if in_with_block else s.do(op)
    hub.monitor = ioproxy.NullMonitor()
    hub.enabled = False
    return out


def acceptable(old, new, op):
    acc = [[p.canon() for p in old], [p.canon() for p in new]]
    if op["op"] == "insert_multiple":
        for k in range(len(old), len(new) + 1):
            acc.append([p.canon() for p in new[:k]])
    return acc


def continue_after_fault(res, t, base, rep, feats, own, rng, origin):
    """Further writes and reads on the live object after the fault: each either raises or agrees with the model
    (started from what the object's own storage holds); the index battery must keep passing; the file after close
    must hold what the object said it holds."""
    from ..histories import getter_probes, query_probes

    t.model.points = [MPoint(c[0], c[1], dict(c[2]), dict(c[3])) for c in own]
    prof = Profile(reindex=1, reopen=0)
    prof.allow_no_time = False
    res.count(f"{origin}.continuations")
    for step in range(4):
        op = gen_write_op(rng, t.model, prof)
        with quiet_stdout():
            out = t.do(op)
        if out.exc is not None and type(out.exc).__name__ in (out.exp_exc or ()):
            res.count(f"{origin}.continuation_op_raised_as_documented")  # e.g. a batch with a non-Point element: judged below
        elif out.exc is not None:
            res.count(f"{origin}.continuation_op_raised")
            if not isinstance(out.exc, (OSError, ValueError)):
                res.violate(Violation("C13", "later-operation-fails-with-unexpected-exception", dict(base, later_op=op["op"], exc=f"{type(out.exc).__name__}: {out.exc}"[:200]), replay=rep, features=feats))
                return False
            break
        res.count(f"{origin}.continuation_ops")
        try:
            post = t.contents()
        except Exception:
            break
        if not out.agrees() or post != [p.canon() for p in t.model.points]:
            res.violate(Violation("C13", "later-operation-wrong-after-io-error", dict(base, later=describe_op(t, out), contents=repr(post)[:300], model=repr([p.canon() for p in t.model.points])[:300]), replay=rep, features=feats))
            return False
        with quiet_stdout():
            v = c06.check_index(res, t.db, {"config": base["config"], "after_fault": base["fault"], "later_op": op["op"], "replay": rep})
        if v is not None:
            v.prop = "C13"
            v.kind = "live-index-disagrees-with-own-storage-after-io-error"
            v.features = feats
            res.violate(v)
            return False
        for probe in query_probes(rng, t.model, prof)[:8] + getter_probes(rng, t.model, prof)[:6]:
            with quiet_stdout():
                pout = t.do(probe)
            if pout.exc is None and not pout.agrees():
                res.violate(Violation("C13", "later-read-wrong-after-io-error", dict(base, later=describe_op(t, pout)), replay=rep, features=feats))
                return False
    want = [p.canon() for p in t.model.points]
    try:
        t.db.close()
    except Exception:
        res.count(f"{origin}.close_raised_after_fault")
        return True
    try:
        ind = [p.canon() for p in csvcodec.decode_bytes(t.file_bytes(), "utf-8", {})]
    except csvcodec.DecodeError as e:
        ind = f"independent reader: {e}"
    if ind != want:
        res.violate(Violation("C13", "file-disagrees-with-live-object-after-continued-use", dict(base, decoded=repr(ind)[:400], live_said=repr(want)[:400]), replay=rep, features=feats))
        return False
    return True


WARM = [
    ("noop", "measurement"), ("cmp", "tags", ("k",), "==", "a"), ("not", ("cmp", "tags", ("k",), "==", "a")),
    ("cmp", "fields", ("x",), ">=", 0), ("cmp", "measurement", (), "==", "m0"), ("cmp", "time", (), ">=", ("T", BASE_US, 0)),
    ("exists", "tags", "j"),
]


def warm_reads(t):
    """The same reads that are repeated after the fault, issued once before it."""
    for ast in WARM:
        q = qast.to_real(ast)
        try:
            t.db.search(q)
            t.db.search(q, sorted=False)
            t.db.get(q)
            t.db.count(q)
            t.db.contains(q)
            t.db.select("measurement", q)
        except Exception:  # noqa: BLE001
            pass
    try:
        t.db.get_tag_values()
        t.db.get_field_values("x")
    except Exception:  # noqa: BLE001
        pass


def repeated_reads_agree(res, t, own, base, rep, feats, origin):
    """Reads that were already answered before the fault are asked again: each raises or describes the object's own
    storage as it is now (a remembered answer from before the failed operation is a silent wrong answer)."""
    pts = [MPoint(c[0], c[1], dict(c[2]), dict(c[3])) for c in own]
    for ast in WARM:
        q = qast.to_real(ast)
        sel = [p for p in pts if qast.holds(ast, p)]
        for name, call, want in (
            ("search", lambda: norm_points(t.db.search(q, sorted=False)), [p.canon() for p in sel]),
            ("search(sorted)", lambda: norm_points(t.db.search(q)), [p.canon() for p in sorted(sel, key=lambda p: p.t)]),
            ("get", lambda: (lambda g: None if g is None else norm_points([g])[0])(t.db.get(q)), sel[0].canon() if sel else None),
            ("count", lambda: t.db.count(q), len(sel)),
            ("contains", lambda: t.db.contains(q), bool(sel)),
            ("select", lambda: list(t.db.select("measurement", q)), [p.m for p in sel]),
        ):
            try:
                with quiet_stdout():
                    got = call()
            except Exception:  # noqa: BLE001
                res.count(f"{origin}.repeated_read_raises")
                continue
            res.count(f"{origin}.repeated_reads_checked")
            if got != want:
                res.violate(Violation("C13", "repeated-read-disagrees-with-own-storage-after-io-error",
                                      dict(base, read=name, query=qast.show(ast), observed=repr(got)[:300], own_storage_says=repr(want)[:300]), replay=rep, features=feats))
                return False
    return True


def describe_op(t, out):
    return {"op": out.op if "q" not in out.op else dict(out.op, q=qast.show(out.op["q"])), "expected": repr(out.exp)[:200], "observed": repr(out.real)[:200],
            "exc": None if out.exc is None else repr(out.exc)[:100]}


def judge_after_fault(res, t, op, out, old, new, fault_label, scratch, origin="proxy", rng=None):
    """Oracle after a faulted op on twin session `t`. Returns False when a violation was raised."""
    cfg = cfg_name(t.cfg)
    opd = op if "q" not in op else dict(op, q=qast.show(op["q"]))
    feats = {"op": op["op"], "fault": fault_label.split("@")[0], "origin": origin}
    base = {"config": cfg, "op": opd, "fault": fault_label, "rows_old": len(old), "rows_new": len(new)}
    rep = {"cfg": t.cfg, "ops": list(t.log), "fault": fault_label}
    res.evaluations += 1
    # (1) the error reaches the caller
    res.count(f"{origin}.faults_injected")
    if out.exc is None:
        res.violate(Violation("C13", "io-error-swallowed", dict(base, returned=repr(out.real)[:100]), replay=rep, features=feats))
        return False
    if not isinstance(out.exc, OSError):
        res.violate(Violation("C13", "io-error-replaced-by-other-exception", dict(base, exc=f"{type(out.exc).__name__}: {out.exc}"[:200]), replay=rep, features=feats))
        return False
    res.count(f"{origin}.error_reached_caller")
    # (2) the live object: fails, or is consistent with its own storage
    try:
        own = norm_points(list(iter(t.db)))
        own_ok = True
    except Exception:
        own_ok = False
        res.count(f"{origin}.live_object_fails_afterwards")
        # The storage handle is unusable.  Reads that are answered from the index alone do not notice: they must
        # then either raise as well or agree with what the file holds - never silently describe other contents.
        try:
            on_disk = [p.canon() for p in csvcodec.decode_bytes(t.file_bytes(), "utf-8", {})]
        except csvcodec.DecodeError:
            on_disk = None
        if on_disk is not None:
            noop = qast.to_real(("noop", "measurement"))
            for name, call, want in (
                ("len", lambda: len(t.db), len(on_disk)),
                ("count", lambda: t.db.count(noop), len(on_disk)),
                ("get_measurements", lambda: t.db.get_measurements(), sorted({c[1] for c in on_disk})),
                ("get_timestamps", lambda: [to_us(x) for x in t.db.get_timestamps()], [c[0] for c in on_disk]),
            ):
                try:
                    with quiet_stdout():
                        got = call()
                except Exception:
                    res.count(f"{origin}.index_served_read_raises_too")
                    continue
                res.count(f"{origin}.index_served_reads_checked_against_file")
                if got != want:
                    res.violate(Violation(
                        "C13", "index-served-answer-disagrees-with-file-after-io-error",
                        dict(base, read=name, observed=repr(got)[:200], file_holds=repr(want)[:200], note="the storage handle raises, index-served reads still answer"),
                        replay=rep, features=feats))
                    return False
    if own_ok:
        with quiet_stdout():
            v = c06.check_index(res, t.db, {"config": cfg, "after_fault": fault_label, "op": opd, "replay": rep})
        res.count(f"{origin}.live_consistency_checks")
        if v is not None:
            v.prop = "C13"
            v.kind = "live-index-disagrees-with-own-storage-after-io-error"
            v.features = feats
            res.violate(v)
            return False
        for name, call, want in (
            ("len", lambda: len(t.db), len(own)),
            ("all", lambda: norm_points(t.db.all(sorted=False)), own),
        ):
            try:
                with quiet_stdout():
                    got = call()
            except Exception:
                continue
            # re-read own storage: all()/len may legitimately have reindexed, but not changed storage
            if got != want:
                res.violate(Violation("C13", "live-answer-disagrees-with-own-storage-after-io-error", dict(base, read=name, observed=repr(got)[:300], own_storage=repr(want)[:300]), replay=rep, features=feats))
                return False
    if own_ok and not repeated_reads_agree(res, t, own, base, rep, feats, origin):
        return False
    # (2b) in a share of the cases: keep using the live object (further writes and reads)
    if own_ok and rng is not None and rng.random() < 0.3:
        return continue_after_fault(res, t, base, rep, feats, own, rng, origin)
    # (3) file after close: old or new; reopen and write again
    try:
        t.db.close()
    except Exception:
        res.count(f"{origin}.close_raised_after_fault")
    data = t.file_bytes()
    acc = acceptable(old, new, op)
    try:
        ind = [p.canon() for p in csvcodec.decode_bytes(data, "utf-8", {})]
    except csvcodec.DecodeError as e:
        ind = f"independent reader: {e}"
    res.count(f"{origin}.file_checks_after_close")
    if ind not in acc:
        res.violate(Violation("C13", "file-neither-old-nor-new-after-io-error", dict(base, decoded=repr(ind)[:400], file_bytes=len(data)), replay=rep, features=feats))
        return False
    res.count(f"{origin}.file_state." + ("old" if ind == acc[0] else "new" if ind == acc[1] else "prefix"))
    try:
        with quiet_stdout():
            from tinyflux import Point, TinyFlux

            db = TinyFlux(t.path, auto_index=t.cfg["auto_index"])
            db.insert(Point(time=from_us(BASE_US + 77), measurement="after", tags={"k": "fault"}))
            n = db.count(qast.to_real(("noop", "measurement")))
            db.close()
        res.count(f"{origin}.reopen_and_write_checks")
        if n != len(ind) + 1:
            res.violate(Violation("C13", "reopened-database-wrong-after-io-error", dict(base, count=n, expected=len(ind) + 1), replay=rep, features=feats))
            return False
    except Exception as e:
        res.violate(Violation("C13", "database-unusable-after-io-error", dict(base, exc=f"{type(e).__name__}: {e}"[:200]), replay=rep, features=feats))
        return False
    return True


def sweep_op(res, s, op, scratch, rng, tier):
    """Inject at every I/O call index of `op` (on clones of the session)."""
    # dry run on a clone to learn the I/O calls and the new contents
    dry = s.clone()
    rec = ioproxy.Recorder()
    try:
        with quiet_stdout():
            out = run_with_monitor(dry, op, rec)
        if out.exc is not None or not out.agrees() or dry.contents() != [p.canon() for p in dry.model.points]:
            res.count("op_itself_misbehaved_skipped")
            return None
        new = [p.copy() for p in dry.model.points]
    finally:
        dry.discard()
    old = [p.copy() for p in s.model.points]
    events = rec.events
    res.count("ops_swept")
    res.count("io_calls_enumerated", len(events))
    res.seen((tuple(p.canon() for p in old), op["op"], repr(op.get("q")), tuple(e.sig() for e in events)))
    ks = list(range(len(events)))
    if tier == "quick" and len(ks) > 40:
        # long rewrites repeat the same (iter, write) pair per row: keep the first 25, the last 10 and a sample between
        ks = ks[:25] + sorted(rng.sample(ks[25:-10], 5)) + ks[-10:]
    for k in ks:
        ev = events[k]
        whens = ["before"] + (["after"] if ev.kind in AFTER_EFFECT else [])
        for when in whens:
            # disk full, I/O error, and the errors Python maps to OSError subclasses (PermissionError for EACCES/EPERM);
            # EINTR / EAGAIN are left out: retrying those is legitimate
            err = rng.choice([errno.ENOSPC, errno.EIO, errno.ENOSPC, errno.EIO, errno.EACCES, errno.EPERM, errno.EROFS, errno.EDQUOT])
            t = s.clone()
            try:
                mon = FaultAt(k, when, err)
                with quiet_stdout():
                    warm_reads(t)  # anything the object remembers about earlier answers is in place before the fault
                    in_with = rng.random() < 0.12
                    if in_with:
                        res.count("faulted_ops_inside_a_with_block")
                    out = run_with_monitor(t, op, mon, in_with_block=in_with)
                if mon.hit is None:
                    res.count("fault_position_not_reached")
                    continue
                res.count(f"fault_kind.{ev.target}.{ev.kind}.{when}")
                label = f"{errno.errorcode[err]}:{when}:{ev.target}.{ev.kind}@{k}/{len(events)}"
                if len(res.samples) < 4 and k in (2, len(events) - 2):
                    res.sample({"config": cfg_name(s.cfg), "op": op if "q" not in op else dict(op, q=qast.show(op["q"])),
                                "rows_before": len(old), "fault": label, "exception_seen_by_caller": repr(out.exc)[:120],
                                "io_calls_of_op": [e.sig() for e in events][:30]})
                if not judge_after_fault(res, t, op, out, old, new, label, scratch, rng=rng):
                    return False
            finally:
                t.discard()
    return True


def strace_sweep(res, s, op, scratch):
    """Real errnos: the k-th syscall of the op touching the database fails with ENOSPC/EIO."""
    from tinyflux import TinyFlux

    pre = s.file_bytes()
    old = [p.copy() for p in s.model.points]
    dry = s.clone()
    try:
        with quiet_stdout():
            out = dry.do(op)
        if out.exc is not None or not out.agrees():
            return
        new = [p.copy() for p in dry.model.points]
    finally:
        dry.discard()
    work = scratch.new_db_path()
    wdir = os.path.dirname(work)
    db = os.path.join(wdir, "db.csv")
    job = {"cfg": s.cfg, "op": op, "mode": "after-fault"}
    with open(db, "wb") as f:
        f.write(pre)
    rc, calls, result = sysmon.run_child(job, db, wdir)
    if rc != 0 or not calls:
        res.count("strace.dry_run_failed")
        shutil.rmtree(wdir, ignore_errors=True)
        return
    res.count("strace.ops_swept")
    acc = acceptable(old, new, op)
    opd = op if "q" not in op else dict(op, q=qast.show(op["q"]))
    start = sysmon.op_start(calls)
    ks = [k for k in range(start, len(calls)) if calls[k][0] in ("write", "fsync", "fdatasync", "ftruncate", "rename", "renameat", "renameat2", "sendfile", "copy_file_range", "openat", "close")]
    if len(ks) > 14:
        # long rewrites repeat (write, fsync) per row: keep the first 5, the last 7 (publish + reopen) and 2 in between
        ks = ks[:5] + ks[len(ks) // 2: len(ks) // 2 + 2] + ks[-7:]
    for k in ks:
        name, j = sysmon.address(calls, k)
        errname = "ENOSPC" if name in ("write", "fsync", "ftruncate", "sendfile", "copy_file_range", "openat", "rename") else "EIO"
        with open(db, "wb") as f:
            f.write(pre)
        rc2, calls2, r2 = sysmon.run_child(job, db, wdir, inject=f"{name}:error={errname}:when={j}")
        res.count("strace.children")
        if not sysmon.hit_as_addressed(calls, k, calls2, "error"):
            res.count("strace.misaddressed_skipped")
            continue
        label = f"{errname}:syscall.{name}#{j}@{k}/{len(calls)}"
        feats = {"op": op["op"], "fault": f"{errname}:syscall.{name}", "origin": "strace"}
        base = {"config": cfg_name(s.cfg), "op": opd, "fault": label, "syscall": calls[k][1][:100]}
        rep = {"cfg": s.cfg, "ops": list(s.log) + [op], "fault": label}
        if r2 is None or "harness_exc" in r2 or r2.get("stage") == "start" or r2.get("stage") == "opened" and "exc" not in r2:
            # the fault hit while the child was still opening the database (before the op): not this op's I/O
            res.count("strace.fault_outside_op")
            continue
        res.evaluations += 1
        res.count("strace.faults_injected")
        if name.startswith("rename"):
            res.count("strace.rename_faults")
        if r2.get("exc") is None:
            # a failing syscall that python retries or that is not part of a checked call (e.g. close of a read-only fd) may be invisible
            if name in ("lseek", "close", "openat"):
                res.count("strace.fault_not_visible_to_python")
            else:
                res.violate(Violation("C13", "io-error-swallowed", dict(base, returned=r2.get("returned")), replay=rep, features=feats))
                break
        elif not r2["exc"][2]:
            res.violate(Violation("C13", "io-error-replaced-by-other-exception", dict(base, exc=r2["exc"][:2]), replay=rep, features=feats))
            break
        else:
            res.count("strace.error_reached_caller")
        if "live_storage" in r2 and "live_all" in r2:
            own = [tuple(_retuple(x)) for x in r2["live_storage"]]
            got = [tuple(_retuple(x)) for x in r2["live_all"]]
            res.count("strace.live_consistency_checks")
            if own != got or ("live_len" in r2 and r2["live_len"] != len(own)):
                res.violate(Violation("C13", "live-answer-disagrees-with-own-storage-after-io-error", dict(base, own_storage=repr(own)[:300], all=repr(got)[:300], len=r2.get("live_len")), replay=rep, features=feats))
                break
        data = ioproxy.kernel_bytes(db)
        try:
            ind = [p.canon() for p in csvcodec.decode_bytes(data, "utf-8", {})]
        except csvcodec.DecodeError as e:
            ind = f"independent reader: {e}"
        res.count("strace.file_checks_after_close")
        if ind not in acc:
            res.violate(Violation("C13", "file-neither-old-nor-new-after-io-error", dict(base, decoded=repr(ind)[:400]), replay=rep, features=feats))
            break
    shutil.rmtree(wdir, ignore_errors=True)


def _retuple(x):
    if isinstance(x, list):
        return tuple(_retuple(i) for i in x)
    return x


def run_history(res, cfg, scratch, rng, tier, strace_budget):
    prof = Profile(reindex=2, reopen=1)
    prof.allow_no_time = False
    s = Session(cfg, scratch)
    try:
        with quiet_stdout():
            for _ in range(rng.randint(2, 5)):
                s.do(gen_write_op(rng, s.model, Profile(update=0, remove=0, update_all=0, remove_all=0, drop_measurement=0)))
        n_ops = rng.randint(3, 6)
        # every entry point that writes is swept in every history, whatever the random ops happen to be: inserts through
        # a Measurement handle (single and batch) come first
        from .. import gen as _gen

        fixed = [
            {"op": "insert_multiple", "via": "h", "m": "m0", "ps": [_gen.gen_point(rng, _gen.MEAS, False) for _ in range(2)], "ps_form": "list"},
            {"op": "insert", "via": "h", "m": "m1", "p": _gen.gen_point(rng, _gen.MEAS, False)},
        ]
        for step in range(n_ops + len(fixed)):
            op = fixed[step] if step < len(fixed) else gen_write_op(rng, s.model, prof)
            if rng.random() < 0.4 and s.model.points:
                with quiet_stdout():
                    s.do({"op": rng.choice(["get", "contains"]), "q": ("cmp", "measurement", (), "==", rng.choice(["m0", "m1", "_default"]))})
                res.count("early_terminating_reads_before_op")
            if op["op"] in MUTATORS:
                r = sweep_op(res, s, op, scratch, rng, tier)
                if r is False:
                    return
                rewrites = op["op"] in ("update", "update_all", "remove", "drop_measurement")
                slot = 1 if rewrites else 0  # one budget for appends/resets, one for operations that rewrite the file
                if strace_budget[slot] > 0 and sysmon.available() and (rewrites or rng.random() < 0.5):
                    n_before = res.counters.get("strace.ops_swept", 0)
                    strace_sweep(res, s, op, scratch)
                    if res.counters.get("strace.ops_swept", 0) > n_before and (not rewrites or res.counters.get("strace.rename_faults", 0)):
                        strace_budget[slot] -= 1
            with quiet_stdout():
                out = s.do(op)
            post = s.contents()
            if post != [p.canon() for p in s.model.points]:
                if any(x and x[0] == "BAD" for x in post):
                    return
                s.model.points = [MPoint(x[0], x[1], dict(x[2]), dict(x[3])) for x in post]
        res.count("histories")
    finally:
        s.discard()


def run(res, tier, seed, shard, nshards):
    res.rule = (
        "seeded histories on CSV databases (auto_index on/off); for every mutating op a dry run on a clone records its "
        "I/O calls, then for every call index k the op is repeated on a fresh clone with OSError(ENOSPC|EIO) raised "
        "instead of call k (for flush/fsync/close also after it took effect); after each fault: error must reach the "
        "caller as OSError, C06 battery + len/all of the live object against its own storage, file after close decodes "
        "to old or new, reopen + insert + count works; a sample of ops repeated with real errnos injected by strace at "
        "the k-th syscall on the database; distinct_nontrivial = distinct (contents, op, arguments, I/O call sequence)"
    )
    budget = [N_STRACE[tier], N_STRACE[tier]]
    with Scratch("c13") as scratch:
        for ci, cfg in enumerate([default_config("csv", True), default_config("csv", False)]):
            for h in range(N_HIST[tier]):
                rng = rng_for("C13", tier, seed, shard, ci, h)
                run_history(res, cfg, scratch, rng, tier, budget)
    if not sysmon.available():
        res.notes.append("strace sub-tier skipped: " + sysmon.why_unavailable())
    res.require("proxy.faults_injected")
    res.require("proxy.error_reached_caller")
    res.require("proxy.live_consistency_checks")
    res.require("proxy.file_checks_after_close")
    res.require("proxy.reopen_and_write_checks")
    res.assumptions += [
        "single fault per operation; the injected exception is an OSError raised at the call boundary inside tinyflux.storages",
        "after-effect injection only for flush/fsync/close (the calls that can fail after having taken effect)",
    ]


def finalize(res, tier):
    # reach gates by role, not by the exact call an implementation happens to use
    def any_of(label, keys):
        n = sum(res.counters.get(f"fault_kind.{k}", 0) for k in keys)
        res.counters[f"fault_role.{label}"] = n
        res.require(f"fault_role.{label}")

    any_of("primary.write", ["primary.write.before"])
    any_of("primary.make_durable.before", ["primary.flush.before", "primary.fsync.before"])
    any_of("primary.make_durable.after", ["primary.flush.after", "primary.fsync.after"])
    any_of("rewrite.stage", ["temp.write.before", "temp.flush.before", "temp.fsync.before", "temp.tmp_create.before", "temp.open.before"])
    any_of("rewrite.publish", ["primary.replace.before", "primary.rename.before"])
    if sysmon.available():
        res.require("strace.faults_injected")


def replay(res, rep):
    print("C13 replay: the replay file holds configuration, op log and the fault position; re-run ./check C13 with the evidence seed")
