"""C10 - a Measurement handle is exactly the database restricted to that measurement.

Differential + model monitor.  For every operation issued through
db.measurement(name):
  * reads/getters: the handle's answer is compared with the model restricted
    to `name` and with the same database operation given measurement=name on the
    same live database.  It is a C10 violation when the handle differs from the
    model unless the filtered database operation gives the identical (wrong)
    answer - then handle and database agree and the defect belongs elsewhere.
    A returned point of another measurement is always a violation.
  * writes: the equivalent database operation (update(..., _measurement=name),
    remove(q, name), drop_measurement(name), insert(p, measurement=name)) is
    applied to a twin (deepcopy / file copy); return value and resulting
    contents must be identical; points of other measurements must be untouched
    (vs. the pre-state) and inserted points must be stored under `name`.
Handles are obtained before and after data changes, for absent names, and are
re-used after drop_measurement / remove_all cleared the database's cache.
"""
from .. import contracts, qast
from ..common import Scratch, rng_for
from ..core import Violation
from ..histories import HistoryRunner, Profile, describe, replay_of, replay_ops
from ..session import READ_OPS, cfg_name, default_config

SHARDS = {"quick": 8, "thorough": 16}
TIMEOUT = {"quick": 1800, "thorough": 7200}
N_HIST = {"quick": 25, "thorough": 250}

CONFIGS = [
    default_config("mem", True), default_config("mem", False),
    default_config("csv", True), default_config("csv", False),
]

NO_DB_EQUIVALENT = {"len", "iter", "all"}


def db_equivalent(op):
    """The database-level operation equivalent to a handle operation (or None)."""
    k = op["op"]
    if k in NO_DB_EQUIVALENT:
        return None
    e = {x: v for x, v in op.items() if x != "via"}
    if k == "remove_all":
        return {"op": "drop_measurement", "name": op["m"]}
    if k == "update_all":
        return {"op": "update", "q": ("noop", "measurement"), "args": op["args"], "m": op["m"]}
    return e


def make_judge(res):
    def judge(kind, s, out, ctx):
        if kind == "begin":
            return
        op = out.op
        if op.get("via") != "h":
            return
        name = op["m"]
        cfg = cfg_name(s.cfg)
        if kind == "read":
            res.count(f"handle_reads.{op['op']}")
            res.seen((tuple(p.canon() for p in s.model.points), op["op"], name, repr(op.get("q")), repr(op.get("keys", op.get("key")))))
            if name == "absent":
                res.count("handle_for_absent_measurement")
            # foreign points are never observable through a handle
            if isinstance(out.real, list):
                for c in out.real:
                    if isinstance(c, tuple) and len(c) == 4 and isinstance(c[1], str) and c[0] != "BAD" and c[1] != name:
                        res.violate(Violation("C10", "handle-returns-foreign-point", describe(s, out), replay=replay_of(s), features={"cfg": cfg, "op": op["op"]}))
                        return
            if out.agrees():
                return
            eq = db_equivalent(op)
            if eq is not None:
                dout = s.do(eq)
                s.log.pop()  # diagnostic call, not part of the history
                res.count("differential_db_calls")
                same_wrong = (dout.exc is None and out.exc is None and dout.real == out.real) or (
                    dout.exc is not None and out.exc is not None and type(dout.exc) is type(out.exc))
                if same_wrong:
                    res.count("handle_and_db_wrong_alike_not_c10")
                    return
            res.violate(Violation("C10", f"handle-{op['op']}-differs", describe(s, out), replay=replay_of(s), features={"cfg": cfg, "op": op["op"]}))
            return
        if kind == "write":
            res.count(f"handle_writes.{op['op']}")
            pre = ctx["pre"]
            res.seen((pre.digest(), op["op"], name, repr(op.get("q")), repr(op.get("args"))))
            # 1. other measurements untouched (vs the pre-state), inserted points land under `name`
            try:
                post = s.contents()
            except Exception as e:
                post = [("BAD", repr(e))]
            others_pre = [p.canon() for p in pre.points if p.m != name]
            renamed_away = op["op"] in ("update", "update_all") and (op.get("args") or {}).get("measurement")
            others_post = [c for c in post if not (isinstance(c[1], str) and c[1] == name)]
            if not renamed_away:
                res.count("others_untouched_checked")
                if others_post != others_pre and out.exc is None:
                    d = describe(s, out)
                    d["others_before"] = repr(others_pre)[:500]
                    d["others_after"] = repr(others_post)[:500]
                    res.violate(Violation("C10", "handle-write-touched-other-measurement", d, replay=replay_of(s), features={"cfg": cfg, "op": op["op"]}))
                    return
            if op["op"] in ("insert", "insert_multiple") and out.exc is None:
                n_new = 1 if op["op"] == "insert" else len(op["ps"])
                tail = post[len(post) - n_new:] if n_new else []
                res.count("handle_inserts_checked")
                if len(post) != len(pre.points) + n_new or any(c[1] != name for c in tail):
                    res.violate(Violation("C10", "handle-insert-not-under-name", describe(s, out), replay=replay_of(s), features={"cfg": cfg}))
                    return
            # 2. differential against the database-level operation on the twin taken before the write
            twin = ctx.get("twin")
            if twin is None:
                return
            eq = db_equivalent(op)
            tout = twin.do(eq)
            res.count("differential_twin_writes")
            try:
                tpost = twin.contents()
            except Exception as e:
                tpost = [("BAD", repr(e))]
            ret_same = (out.exc is None and tout.exc is None and out.real == tout.real) or (
                out.exc is not None and tout.exc is not None and type(out.exc) is type(tout.exc))
            if not ret_same or _strip_stamp(post, op) != _strip_stamp(tpost, op):
                d = describe(s, out)
                d["db_equivalent"] = eq if "q" not in eq else dict(eq, q=qast.show(eq["q"]))
                d["db_returned"] = repr(tout.real if tout.exc is None else tout.exc)[:300]
                d["contents_after_handle_op"] = repr(post)[:500]
                d["contents_after_db_op"] = repr(tpost)[:500]
                res.violate(Violation("C10", f"handle-{op['op']}-differs-from-db", d, replay=replay_of(s), features={"cfg": cfg, "op": op["op"]}))
            elif not out.agrees():
                res.count("handle_and_db_wrong_alike_not_c10")

    return judge


def _strip_stamp(contents, op):
    """Insertion stamps of time-less points differ between live db and twin."""
    if op["op"] == "insert" and op["p"].get("t") is None:
        return contents[:-1] + [("stamped",) + tuple(contents[-1][1:])] if contents else contents
    if op["op"] == "insert_multiple":
        n = len(op["ps"]) if op.get("bad_at") is None else min(op["bad_at"], len(op["ps"]))  # a failing batch stores a prefix
        out = list(contents)
        for i, spec in enumerate(op["ps"]):
            j = len(out) - n + i
            if spec.get("t") is None and 0 <= j < len(out):
                out[j] = ("stamped",) + tuple(out[j][1:])
        return out
    return contents


class Runner(HistoryRunner):
    def run(self):
        return HistoryRunner.run(self)

    def _write(self, s, op):
        twin = None
        if op.get("via") == "h":
            twin = s.clone()
        orig = self.judge

        def judge(kind, s_, out, ctx):
            if kind == "write":
                ctx["twin"] = twin
            orig(kind, s_, out, ctx)

        self.judge = judge
        try:
            return HistoryRunner._write(self, s, op)
        finally:
            self.judge = orig
            if twin is not None:
                twin.discard()


def profile(rng):
    p = Profile()
    p.handle_share = 0.6
    p.meas = ["m0", "m1", "_default", "m2"]
    if rng.random() < 0.3:
        # names that differ only in surrounding blanks / case, prefixes of each other, names looking like other things
        p.meas = ["m0", " m0", "m0 ", "M0", "m", "m00", "_default", "None", "m0\t"]
    elif rng.random() < 0.2:
        # names that are different strings but equal under some unicode normalisation / folding
        p.meas = ["m0", "caf\u00e9", "cafe\u0301", "m2", "m\u00b2", "cpu", "\uff43\uff50\uff55", "stra\u00dfe", "strasse"]
    elif rng.random() < 0.25:
        # names that are patterns in some syntax (glob, regex, SQL LIKE): a name is a literal
        p.meas = ["m0", "m1", "m*", "m?", "m[01]", "rate[5m]", "rate5", ".*", "m.", "%", "_default"]
    p.getter_probes = True
    p.n_random_probes = 3
    p.time_probes = False
    if rng.random() < 0.2:  # dozens of rows: the rows of one measurement lie scattered between those of the others
        p.max_rows = 45
        p.min_ops, p.max_ops = 4, 9
    if len(p.meas) == 4 and rng.random() < 0.25:
        from .. import gen as _gen

        _gen.make_wild(p, rng)  # names, keys and values from the pool of awkward strings
    return p


def handle_probes(rng, model, prof):
    """Force every read through a handle."""
    from ..histories import getter_probes, query_probes

    ops = query_probes(rng, model, prof) + getter_probes(rng, model, prof)
    names = prof.meas + ["absent"]
    out = []
    for op in ops:
        if op["op"] == "get_measurements":
            continue
        op = dict(op)
        op["via"] = "h"
        op.setdefault("m", rng.choice(names))
        if not op["m"]:
            op["m"] = rng.choice(names)
        out.append(op)
    return out


class HRunner(Runner):
    def _probe(self, s):
        for op in handle_probes(self.rng, s.model, self.prof):
            out = s.do(op)
            self.res.evaluations += 1
            self.judge("read", s, out, {})


def far_dates_differential(res, scratch):
    """Handle versus database on instants one microsecond apart far outside the range in which float seconds can tell
    them apart (years 2600 and 1000), stored out of time order: purely differential (no model, no time queries) -
    whatever the database answers for the whole store, the handle answers the same restricted to its measurement."""
    from datetime import datetime, timedelta, timezone

    from tinyflux import Point, TinyFlux
    from tinyflux.storages import MemoryStorage

    base = [datetime(2600, 5, 6, 7, 8, 9, 123456, tzinfo=timezone.utc), datetime(1000, 1, 2, 3, 4, 5, 654321, tzinfo=timezone.utc)]
    for storage in ("mem", "csv"):
        for auto in (True, False):
            path = scratch.new_db_path() if storage == "csv" else None
            db = TinyFlux(path, auto_index=auto) if path else TinyFlux(storage=MemoryStorage, auto_index=auto)
            try:
                k = 0
                for b in base:
                    for us in (3, 1, 2, 0, 1):
                        for m in ("m0", "m1"):
                            db.insert(Point(time=b + timedelta(microseconds=us), measurement=m, tags={"k": str(k)}, fields={"x": k}))
                            k += 1
                for name in ("m0", "m1", "absent"):
                    h = db.measurement(name)
                    pairs = [
                        ("all(sorted=True)", [p.tags["k"] for p in h.all(sorted=True)], [p.tags["k"] for p in db.all(sorted=True) if p.measurement == name]),
                        ("all(sorted=False)", [p.tags["k"] for p in h.all(sorted=False)], [p.tags["k"] for p in db.all(sorted=False) if p.measurement == name]),
                        ("iter", [p.tags["k"] for p in h], [p.tags["k"] for p in db if p.measurement == name]),
                        ("len", len(h), sum(1 for p in db if p.measurement == name)),
                        ("get_timestamps", h.get_timestamps(), db.get_timestamps(name)),
                        ("get_field_values", h.get_field_values("x"), db.get_field_values("x", name)),
                    ]
                    for what, got, want in pairs:
                        res.evaluations += 1
                        res.count("far_dates_differential_reads")
                        if got != want:
                            res.violate(Violation("C10", f"handle-{what.split('(')[0]}-differs", {"config": f"{storage}/{'ai' if auto else 'noai'}", "read": what, "measurement": name,
                                                  "handle": repr(got)[:300], "database_restricted": repr(want)[:300], "note": "instants 1 us apart in the years 2600 and 1000"},
                                                  replay={"far_dates": True, "storage": storage, "auto_index": auto}, features={"cfg": storage, "op": what}))
                            return
            finally:
                db.close()
                if path:
                    scratch.drop_db_dir(path)


def run(res, tier, seed, shard, nshards):
    contracts.install()
    res.rule = (
        "seeded histories over 4 measurements with 60% of the mutating ops and all probes issued through Measurement "
        "handles (fresh, sticky/stale after drop_measurement and remove_all, absent names); each handle read is compared "
        "with the model and with the filtered database operation; each handle write with the equivalent database "
        "operation applied to a twin and with the pre-state of the other measurements; distinct_nontrivial = distinct "
        "(contents, operation, name, arguments) handle cases"
    )
    judge = make_judge(res)
    with Scratch("c10") as scratch:
        for ci, cfg in enumerate(CONFIGS):
            for h in range(N_HIST[tier]):
                rng = rng_for("C10", tier, seed, shard, ci, h)
                r = HRunner(res, cfg, scratch, rng, profile(rng), judge)
                sticky = h % 2 == 0
                r.sticky = sticky
                s = _run_with_sticky(r, sticky)
                if h == 0 and shard == 0 and ci in (0, 3):
                    res.sample({"config": cfg_name(cfg), "first_ops": s.log[:5]})
        if shard == 0:
            far_dates_differential(res, scratch)
    contracts.drain(res)
    for k in ("search", "count", "get", "select", "contains", "len", "iter", "all", "get_field_values", "get_tag_values", "get_timestamps", "get_tag_keys", "get_field_keys"):
        res.require(f"handle_reads.{k}")
    for k in ("insert", "update", "update_all", "remove", "remove_all"):
        res.require(f"handle_writes.{k}")
    res.require("differential_twin_writes")
    res.require("others_untouched_checked")
    res.require("handle_for_absent_measurement")
    res.require("sticky_handle_histories")
    res.assumptions += [
        "measurement names are non-empty strings (db.measurement('') is outside the quantifier: names that are absent, not empty)",
        "<= 12 rows; process TZ = UTC",
    ]


def _run_with_sticky(runner, sticky):
    from ..session import Session

    orig_init = Session.__init__

    def init(self, *a, **kw):
        orig_init(self, *a, **kw)
        self.sticky_handles = sticky

    Session.__init__ = init
    try:
        if sticky:
            runner.res.count("sticky_handle_histories")
        return runner.run()
    finally:
        Session.__init__ = orig_init


def replay(res, rep):
    r = rep["replay"]
    with Scratch("c10r") as scratch:
        replay_ops(res, r["cfg"], r["ops"], scratch, make_judge(res), Runner)
