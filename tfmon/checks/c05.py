"""C05 - every valid Point survives serialization to CSV and back unchanged.

Events: (a) Point._serialize_to_list(compact) -> csv.writer -> csv.reader ->
Point._deserialize_from_list; (b) insert -> close -> reopen -> all().
Oracle: decoded == original (repository equality; sign of zero and infinities
checked separately), tags still tags and fields still fields; injectivity
table decoded-point -> originals over the whole run.
"""
import csv
import io
import math
import struct

from ..common import Scratch, from_us, quiet_stdout, rng_for, to_us
from ..core import Violation
from ..gen import NASTY
from ..model import MPoint

SHARDS = {"quick": 8, "thorough": 16}
TIMEOUT = {"quick": 1800, "thorough": 7200}
N_POINTS = {"quick": 2500, "thorough": 100000}  # per shard

DIALECTS = [
    {},
    {"delimiter": ";"},
    {"quotechar": "'"},
    {"quoting": csv.QUOTE_ALL},
    {"escapechar": "\\", "doublequote": False},
    {"lineterminator": "\n"},
    {"lineterminator": "\r"},
    {"skipinitialspace": True, "quoting": csv.QUOTE_ALL},
    {"delimiter": "\t", "quoting": csv.QUOTE_NONNUMERIC},
]

Y1700 = -8520336000 * 10**6
Y2240 = 8520336000 * 10**6
BIG = 2**53


def gen_text(rng):
    r = rng.random()
    if rng.random() < 0.012:
        # long values: beyond 255 / 4096 / the 8 KiB I/O buffers / 64 KiB
        n = rng.choice([256, 300, 4097, 8193, 70000])
        unit = rng.choice(["x", "ab,", "\u00e9", 'q"', "line\n", " "])
        return (unit * (n // len(unit) + 1))[:n]
    if r < 0.35:
        return rng.choice(NASTY)
    if r < 0.55:
        return rng.choice(NASTY) + rng.choice(NASTY)
    if r < 0.7:
        return "".join(rng.choice("ab_tf,;\"'\\\r\n \t0-.e") for _ in range(rng.randrange(0, 6)))
    if r < 0.8:
        return "".join(chr(rng.choice([rng.randrange(1, 0x80), rng.randrange(0x80, 0x800), rng.randrange(0x800, 0xD800), rng.randrange(0x10000, 0x10400)])) for _ in range(rng.randrange(1, 4)))
    return rng.choice(["k", "city", "temp_f", "x", "my tag", "A1"])


class Reading(float):
    """A float subclass that prints like a numpy scalar does (valid field value: it IS a float)."""

    def __repr__(self):
        return f"Reading({float(self)!r})"


class Count(int):
    def __repr__(self):
        return f"Count({int(self)})"

    __str__ = __repr__


def gen_field_value(rng, exotic):
    r = rng.random()
    if r > 0.97:
        return rng.choice([Reading(21.5), Reading(-0.0), Reading(1e22), Count(7), Count(-3), Reading(float("inf"))])
    if r < 0.1:
        return None
    if r < 0.3:
        while True:
            f = struct.unpack("<d", struct.pack("<Q", rng.getrandbits(64)))[0]
            if f == f:  # no NaN
                return f
    if r < 0.45:
        return rng.choice([0.0, -0.0, float("inf"), float("-inf"), 5e-324, -5e-324, 2.2250738585072014e-308, 1.7976931348623157e308, 0.1, 1e16, 1e-7, 123456789.123456789, 1e22, 1e-5, 1e15, 1e17, 123456789012345680.0, 9007199254740993.0, 0.1 + 0.2, 5e-5, 1.0, 100.0, -3.0, 1e100, 2.5e-300])
    if r < 0.8:
        return rng.choice([0, 1, -1, 7, -40, 2**31, -(2**31) - 1, 10**15, BIG, -BIG, BIG - 1])
    if exotic:
        return rng.choice([BIG + 1, -(BIG + 1), 10**30, -(10**30) + 1, 2**64 + 1, 10**400])
    return rng.randrange(-(10**9), 10**9)


def gen_mpoint(rng, exotic):
    t = rng.choice([rng.randrange(Y1700, Y2240), rng.randrange(0, 2 * 10**15), 0, -1, 1_614_834_367_000_008])
    if rng.random() < 0.2:
        t -= t % 10**6  # no fractional part: isoformat omits microseconds
    r = rng.random()
    if r < 0.3:
        m = rng.choice(["_default", "m0", "cities"])
    else:
        m = gen_text(rng)
        if not exotic and m == "":
            m = "x"
    many = rng.random() < 0.01  # points with dozens of tags / fields
    tags = {}
    for i in range(rng.choice([17, 40, 120]) if many else rng.choice([0, 1, 1, 2, 3])):
        v = None if rng.random() < 0.15 else gen_text(rng)
        if not exotic and v == "_none":
            v = "_none_"
        tags[gen_text(rng) + (str(i) if many else "")] = v
    fields = {}
    for i in range(rng.choice([17, 40, 120]) if many else rng.choice([0, 1, 1, 2, 3])):
        fields[gen_text(rng) + (str(i) if many else "")] = gen_field_value(rng, exotic)
    if rng.random() < 0.05 and tags:
        # the same key as tag and as field; keys differing only in case / trailing blank
        k = next(iter(tags))
        fields[k] = gen_field_value(rng, exotic)
        tags[k.upper()] = "U"
        tags[k + " "] = "trailing blank"
    return MPoint(t, m, tags, fields)


def strict_fields_equal(a, b):
    """Field dict equality that also sees the sign of zero."""
    if a.keys() != b.keys():
        return False
    for k in a:
        x, y = a[k], b[k]
        if x is None or y is None:
            if x is not y:
                return False
            continue
        if x != y:
            return False
        if x == 0 and math.copysign(1, x) != math.copysign(1, float(y)):
            return False
    return True


def diff_features(orig, dec):
    slots = []
    if orig.t != dec.t:
        slots.append("time")
    if orig.m != dec.m:
        slots.append("measurement")
    if orig.tags != dec.tags:
        slots.append("tags")
    if not strict_fields_equal(orig.fields, dec.fields):
        slots.append("fields")
    f = {"diff_slots": slots, "orig_measurement": orig.m}
    if "tags" in slots:
        f["all_diff_tag_values_are_none_token"] = (
            orig.tags.keys() == dec.tags.keys()
            and all(orig.tags[k] == dec.tags[k] or (orig.tags[k] == "_none" and dec.tags[k] is None) for k in orig.tags)
        )
    if "fields" in slots:
        def same(x, y):  # strict: equal AND same sign of zero
            return strict_fields_equal({"v": x}, {"v": y})

        differing = [k for k in orig.fields if k in dec.fields and not same(orig.fields[k], dec.fields[k])]
        f["all_diff_fields_are_big_ints"] = (
            orig.fields.keys() == dec.fields.keys()
            and bool(differing)
            and all(isinstance(orig.fields[k], int) and not isinstance(orig.fields[k], bool) and abs(orig.fields[k]) > BIG
                    and _is_float_image(orig.fields[k], dec.fields[k]) for k in differing)
        )
    return f


def _is_float_image(original_int, decoded):
    """The listed mechanism: the int was written as str(float(v)), so it comes back as exactly float(v).  An int that
    float() cannot express at all (OverflowError) is the other listed finding and never decodes to anything."""
    try:
        return isinstance(decoded, (int, float)) and not isinstance(decoded, bool) and decoded == float(original_int)
    except OverflowError:
        return False


def violate_per_slot(res, kind, detail, replay, features):
    """One violation per differing slot, so that each is classified on its own mechanism."""
    slots = features.get("diff_slots") or ["none"]
    for slot in slots:
        f = dict(features, diff_slots=[slot])
        res.violate(Violation("C05", kind, dict(detail, differing_slot=slot), replay=replay, features=f))


def zero_signs(mp):
    """Sign of every zero valued field (0, 0.0 -> +1; -0.0 -> -1): equality cannot see it."""
    return tuple(sorted(
        (k, math.copysign(1, float(v)) if (v is not None and v == 0) else 0) for k, v in mp.fields.items()
    ))


class Injectivity:
    """decoded point -> first original that produced it."""

    def __init__(self):
        self.table = {}

    def add(self, res, orig, dec, where):
        key = (dec.canon(), zero_signs(dec))
        okey = (orig.canon(), zero_signs(orig))
        prev = self.table.get(key)
        res.count("injectivity_entries")
        if prev is None:
            self.table[key] = (okey, orig)
            return
        if prev[0] != okey:
            other = prev[1]
            f = diff_features(orig, other)
            f2 = dict(f)
            # which original is the "exotic" one
            if f.get("diff_slots") == ["tags"]:
                f2["all_diff_tag_values_are_none_token"] = all(
                    orig.tags.get(k) == other.tags.get(k) or {orig.tags.get(k), other.tags.get(k)} == {"_none", None}
                    for k in set(orig.tags) | set(other.tags)
                ) and orig.tags.keys() == other.tags.keys()
            if f.get("diff_slots") == ["fields"]:
                differing = [k for k in orig.fields if k in other.fields and not strict_fields_equal({"v": orig.fields[k]}, {"v": other.fields[k]})]
                f2["all_diff_fields_are_big_ints"] = orig.fields.keys() == other.fields.keys() and bool(differing) and all(
                    any(isinstance(v, int) and not isinstance(v, bool) and abs(v) > BIG for v in (orig.fields[k], other.fields[k]))
                    for k in differing
                )
            violate_per_slot(
                res, "not-injective",
                {"original_1": other.to_json(), "original_2": orig.to_json(), "both_decode_to": dec.to_json(), "where": where},
                {"points": [other.to_json(), orig.to_json()]}, f2,
            )


def has_int_beyond_float(mp):
    for v in mp.fields.values():
        if isinstance(v, int) and not isinstance(v, bool):
            try:
                float(v)
            except OverflowError:
                return True
    return False


def codec_roundtrip(res, inj, mp, compact, dialect, where="codec"):
    """(a) list-level codec through the csv module."""
    from tinyflux import Point

    from ..model import from_real

    res.evaluations += 1
    real = mp.to_real()
    try:
        row = list(real._serialize_to_list(compact_key_prefixes=compact))
    except Exception as e:
        res.violate(Violation(
            "C05", "serialize-raises", {"point": mp.to_json(), "exc": f"{type(e).__name__}: {e}", "compact": compact},
            replay={"points": [mp.to_json()], "compact": compact},
            features={"exc": type(e).__name__, "has_int_beyond_float": has_int_beyond_float(mp)},
        ))
        return
    if not all(isinstance(c, str) for c in row):
        res.violate(Violation("C05", "serialized-cell-not-str", {"point": mp.to_json(), "row": repr(row)}, replay={"points": [mp.to_json()]}))
        return
    # admissibility: the csv module itself must round-trip this row under this dialect
    buf = io.StringIO(newline="")
    try:
        csv.writer(buf, **dialect).writerow(row)
        back = list(csv.reader(io.StringIO(buf.getvalue(), newline=""), **dialect))
    except Exception:
        back = None
    if back != [row]:
        res.count("discarded.csv_module_cannot_roundtrip_row_under_dialect")
        back = [row]
        res.count("codec.list_level_only")
    else:
        res.count("codec.through_csv_module")
    try:
        dec_real = Point()._deserialize_from_list(back[0])
        dec = from_real(dec_real)
    except Exception as e:
        res.violate(Violation(
            "C05", "deserialize-raises", {"point": mp.to_json(), "row": row, "exc": f"{type(e).__name__}: {e}", "compact": compact},
            replay={"points": [mp.to_json()], "compact": compact}, features={"exc": type(e).__name__},
        ))
        return
    res.count(f"prefix.{'compact' if compact else 'default'}")
    if dec.t != mp.t or dec.m != mp.m or dec.tags != mp.tags or not strict_fields_equal(mp.fields, dec.fields) or not (dec_real == real):
        violate_per_slot(
            res, "roundtrip-mismatch",
            {"original": mp.to_json(), "decoded": dec.to_json(), "row": row, "compact": compact, "where": where},
            {"points": [mp.to_json()], "compact": compact}, diff_features(mp, dec),
        )
    inj.add(res, mp, dec, where)


def db_roundtrip(res, inj, scratch, mps, compact_flags, dialect):
    """(b) insert -> close -> reopen -> all()."""
    from tinyflux import TinyFlux

    from ..model import from_real

    path = scratch.new_db_path()
    try:
        stored = []
        with quiet_stdout():
            db = TinyFlux(path, auto_index=False, **dialect)
            for mp, compact in zip(mps, compact_flags):
                row = list(mp.to_real()._serialize_to_list(compact))
                buf = io.StringIO(newline="")
                try:
                    csv.writer(buf, **dialect).writerow(row)
                    ok = list(csv.reader(io.StringIO(buf.getvalue(), newline=""), **dialect)) == [row]
                except Exception:
                    ok = False
                if not ok:
                    res.count("discarded.csv_module_cannot_roundtrip_row_under_dialect")
                    continue
                try:
                    buf.getvalue().encode("utf-8")
                except UnicodeEncodeError:
                    res.count("discarded.not_encodable")
                    continue
                try:
                    db.insert(mp.to_real(), compact_key_prefixes=compact)
                except Exception as e:
                    db.close()
                    res.violate(Violation("C05", "insert-of-valid-point-raises", {"point": mp.to_json(), "compact": compact, "dialect": repr(dialect), "exc": f"{type(e).__name__}: {e}"[:200]},
                                          replay={"points": [mp.to_json()], "dialect": repr(dialect)}, features={}))
                    return
                stored.append(mp)
            db.close()
            try:
                db2 = TinyFlux(path, auto_index=bool(len(stored) % 2), access_mode="r", **dialect)
                got = db2.all(sorted=False)
                db2.close()
            except Exception as e:
                res.violate(Violation("C05", "database-cannot-read-its-own-file", {"stored": len(stored), "dialect": repr(dialect), "exc": f"{type(e).__name__}: {e}"[:200], "points": [m.to_json() for m in stored[:5]]},
                                      replay={"points": [m.to_json() for m in stored], "dialect": repr(dialect)}, features={}))
                return
        res.count("db_roundtrips")
        if len(got) != len(stored):
            res.violate(Violation("C05", "reopen-wrong-number-of-points", {"stored": len(stored), "read": len(got), "dialect": repr(dialect), "points": [m.to_json() for m in stored[:5]]}, replay={"points": [m.to_json() for m in stored], "dialect": repr(dialect)}, features={}))
            return
        for mp, rp in zip(stored, got):
            res.evaluations += 1
            dec = from_real(rp)
            if dec.t != mp.t or dec.m != mp.m or dec.tags != mp.tags or not strict_fields_equal(mp.fields, dec.fields):
                violate_per_slot(
                    res, "roundtrip-mismatch",
                    {"original": mp.to_json(), "decoded": dec.to_json(), "where": "insert/reopen", "dialect": repr(dialect)},
                    {"points": [mp.to_json()], "dialect": repr(dialect)}, diff_features(mp, dec),
                )
            inj.add(res, mp, dec, "insert/reopen")
    finally:
        scratch.drop_db_dir(path)


def escape_battery(res, inj, scratch):
    """The tokens the row layout reserves, decorated the ways an escaping scheme would decorate them, in every string
    slot (deterministic, every run): each is just a string and comes back as itself, and no two of them as the same."""
    tokens = ["_none", "none", "None", "_tag_", "_field_", "t_", "f_", "_default", "_", ""]
    deco = [lambda t: "_" + t, lambda t: "__" + t, lambda t: t + "_", lambda t: "\\" + t, lambda t: t + t, lambda t: '"' + t + '"',
            lambda t: " " + t, lambda t: t + " ", lambda t: t.upper(), lambda t: "%" + t, lambda t: t + "\\", lambda t: t]
    strings = []
    for t in tokens:
        for d in deco:
            x = d(t)
            if x not in strings:
                strings.append(x)
    pts = []
    for i, x in enumerate(strings):
        us = 1_614_834_367_000_000 + i
        if x != "_none":  # tag value "_none" is the listed codec finding
            pts.append(MPoint(us, "m0", {"k": x}, {"x": 1}))
        if x != "":
            pts.append(MPoint(us, x, {"k": "v"}, {}))
        pts.append(MPoint(us, "m0", {x: "v"}, {}))
        pts.append(MPoint(us, "m0", {}, {x: 1.5}))
    # one witness per listed codec finding, so that every run reports each of them (classified, never a violation)
    pts.append(MPoint(1_614_834_367_999_001, "m0", {"k": "_none"}, {"x": 1}))
    pts.append(MPoint(1_614_834_367_999_002, "m0", {"k": "v"}, {"x": 2**53 + 1}))
    for mp in pts:
        res.count("escape_battery_points")
        for compact in (False, True):
            codec_roundtrip(res, inj, mp, compact, {})
    for k in range(0, len(pts), 40):
        db_roundtrip(res, inj, scratch, pts[k:k + 40], [bool(j % 2) for j in range(len(pts[k:k + 40]))], {})
    for compact in (False, True):
        codec_roundtrip(res, inj, MPoint(1_614_834_367_999_003, "m0", {"k": "v"}, {"x": 10**400}), compact, {})
    reused_point_object(res, scratch)


def reused_point_object(res, scratch):
    """One Point object written several times with its tags / fields edited in place in between (no setter involved):
    every insert writes the point as it is at that moment - whatever the object may remember about earlier writes."""
    from tinyflux import Point, TinyFlux

    from ..common import from_us
    from ..model import from_real

    for compact in (False, True):
        path = scratch.new_db_path()
        path2 = scratch.new_db_path()
        try:
            with quiet_stdout():
                db, db2 = TinyFlux(path), TinyFlux(path2)
                p = Point(time=from_us(1_614_834_367_000_000), measurement="m0", tags={"k": "a"}, fields={"x": 1})
                want = []
                for step in range(4):
                    db.insert(p, compact_key_prefixes=compact)
                    want.append(from_real(p).canon())
                    if step == 1:
                        db2.insert(p, compact_key_prefixes=not compact)  # the same object, another database, the other style
                    p.fields["x"] = step + 2          # edited in place
                    p.tags["k"] = "abc"[step % 3] * (step + 1)
                    if step == 2:
                        p.tags["new"] = "n"
                        del p.fields["x"]
                db.close()
                db2.close()
                got = [from_real(q_).canon() for q_ in TinyFlux(path, auto_index=False).all(sorted=False)]
                got2 = [from_real(q_).canon() for q_ in TinyFlux(path2, auto_index=False).all(sorted=False)]
            res.evaluations += 1
            res.count("reused_point_object_roundtrips")
            if got != want or got2 != [want[1]]:
                res.violate(Violation("C05", "roundtrip-mismatch", {"where": "one Point object inserted four times, edited in place in between", "compact": compact,
                                      "written": repr(want)[:500], "read_back": repr(got)[:500], "second_database": repr(got2)[:200]},
                                      replay={"reused_point_object": True, "compact": compact}, features={"diff_slots": ["reuse"]}))
        finally:
            scratch.drop_db_dir(path)
            scratch.drop_db_dir(path2)


def run(res, tier, seed, shard, nshards):
    res.rule = (
        "seeded points: every string slot (measurement, tag keys/values, field keys) drawn from a nasty-string generator "
        "(delimiters, quotes, CR/LF/NUL, BOM, leading '_'/'t'/'f', reserved words '_none' '_tag_x' 'f_x', empty, astral and "
        "combining code points); field values from random float64 bit patterns (no NaN), +-0.0, +-inf, subnormals, ints; "
        "microsecond times in 1700-2240; each point through the list codec + csv module for both prefix styles and 7 "
        "dialects, and in batches through insert/close/reopen; clean stratum avoids the triggers of listed codec findings, "
        "exotic stratum adds them; distinct_nontrivial = distinct original points (by repository equality)"
    )
    inj = Injectivity()
    n = N_POINTS[tier]
    with Scratch("c05") as scratch:
        batch, flags = [], []
        for i in range(n):
            rng = rng_for("C05", tier, seed, shard, i)
            exotic = i % 5 == 4
            mp = gen_mpoint(rng, exotic)
            res.count("stratum.exotic" if exotic else "stratum.clean")
            res.seen(mp.canon())
            if i < 3 and shard == 0:
                res.sample(mp.to_json())
            dialect = DIALECTS[i % len(DIALECTS)]
            for compact in (False, True):
                codec_roundtrip(res, inj, mp, compact, dialect)
            if not (exotic and has_int_beyond_float(mp)):
                batch.append(mp)
                flags.append(rng.random() < 0.5)
            if len(batch) >= 40:
                db_roundtrip(res, inj, scratch, batch, flags, DIALECTS[(i // 40) % len(DIALECTS)])
                batch, flags = [], []
        if batch:
            db_roundtrip(res, inj, scratch, batch, flags, {})
        if shard == 0:
            escape_battery(res, inj, scratch)
    res.require("codec.through_csv_module")
    res.require("db_roundtrips")
    res.require("prefix.compact")
    res.require("prefix.default")
    res.require("injectivity_entries")
    res.assumptions += [
        "NaN is never generated (NaN != NaN makes 'equal point' meaningless)",
        "a row is only pushed through a csv dialect if the csv module itself round-trips that row under that dialect (counted discards)",
        "injectivity is checked among the points of one run (per worker process)",
    ]


def finalize(res, tier):
    res.require("escape_battery_points")


def replay(res, rep):
    r = rep["replay"]
    inj = Injectivity()
    for p in r["points"]:
        mp = MPoint(p["t"], p["m"], p["tags"], p["fields"])
        for compact in (False, True):
            codec_roundtrip(res, inj, mp, compact, {})
