#!/bin/bash
# usage: tools/confirm_batch.sh <first number> <group> [groups...]  - confirms /tmp/wt-<group>/SEEDED/{a,b,c}
n=$1; shift
for g in "$@"; do for v in a b c; do
  [ -f /tmp/wt-$g/SEEDED/$v/meta.json ] || continue
  p=$(/venv/bin/python -c "import json;print(json.load(open('/tmp/wt-$g/SEEDED/$v/meta.json'))['property'][:3])")
  id=$(printf "S%02d-%s" $n $p); echo "#### $id ($g/$v)"
  /verif/tools/confirm_seeded.sh $id /tmp/wt-$g/SEEDED/$v $p | grep -E "patch|tests|demo|check"
  n=$((n+1))
done; done
