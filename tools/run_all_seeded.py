#!/venv/bin/python
"""Regression of the checks against every confirmed seeded change (scratch copies only; /repo is never touched).

usage: tools/run_all_seeded.py [--jobs N] [ids...]
Writes seeded/INDEX.md: one row per change with the verdict of the check of its own property (quick tier).
"""
import concurrent.futures as cf
import glob
import json
import os
import shutil
import subprocess
import sys
import tempfile

VERIF = os.path.dirname(os.path.dirname(os.path.abspath(__file__)))


def run_one(d):
    sid = os.path.basename(d)
    meta = json.load(open(os.path.join(d, "meta.json")))
    prop = meta.get("property", sid.split("-")[1])[:3]
    base = tempfile.mkdtemp(prefix=f"seedreg-{sid}-", dir="/dev/shm")
    try:
        subprocess.run(f"git -C /repo archive HEAD | tar -x -C {base}", shell=True, check=True)
        r = subprocess.run(["patch", "-p1", "-s", "-i", os.path.join(d, "patch.diff")], cwd=base, capture_output=True, text=True)
        if r.returncode != 0:
            return sid, prop, "patch-does-not-apply", "", meta
        env = dict(os.environ, TFMON_REPO=base, TFMON_EVIDENCE_DIR=os.path.join(base, "ev"), TFMON_OUT_DIR=os.path.join(base, "out"))
        r = subprocess.run([os.path.join(VERIF, "check"), prop, "--tier", "quick"], cwd=VERIF, env=env, capture_output=True, text=True, timeout=3000)
        kinds = sorted({l.split("kind=")[1].split(" ")[0] for l in r.stdout.splitlines() if l.strip().startswith("kind=")})
        verdict = {0: "MISSED (held)", 1: "caught", 2: "inconclusive"}.get(r.returncode, f"rc={r.returncode}")
        return sid, prop, verdict, ", ".join(kinds), meta
    finally:
        shutil.rmtree(base, ignore_errors=True)


def main():
    jobs = 2
    ids = []
    for a in sys.argv[1:]:
        if a.startswith("--jobs="):
            jobs = int(a.split("=")[1])
        else:
            ids.append(a)
    dirs = [d for d in sorted(glob.glob(os.path.join(VERIF, "seeded", "S*"))) if not ids or os.path.basename(d) in ids]
    rows = []
    with cf.ThreadPoolExecutor(max_workers=jobs) as ex:
        for row in ex.map(run_one, dirs):
            rows.append(row)
            print(row[0], row[1], row[2], row[3], flush=True)
    if not ids:
        with open(os.path.join(VERIF, "seeded", "INDEX.md"), "w") as f:
            f.write("# Seeded changes and the verdict of the check of their own property (quick tier)\n\n")
            f.write("| id | property | verdict | violation kinds | what the change does | what it needs |\n|---|---|---|---|---|---|\n")
            for sid, prop, verdict, kinds, meta in rows:
                f.write(f"| {sid} | {prop} | {verdict} | {kinds} | {str(meta.get('summary', '')).replace('|', '/')[:260]} | {str(meta.get('needs', '')).replace('|', '/')[:200]} |\n")
    missed = [r for r in rows if r[2] != "caught"]
    print(f"{len(rows) - len(missed)}/{len(rows)} caught")
    return 1 if missed else 0


if __name__ == "__main__":
    sys.exit(main())
