#!/bin/bash
# usage: tools/confirm_round.sh <first number> <group> [groups...]  - like confirm_batch.sh, one lane per group in parallel
# (three numbers are reserved per group: a, b, c); each lane's report goes to /dev/shm/confirm-round-<group>.log
n=$1; shift
for g in "$@"; do
  ( k=$n; for v in a b c; do
      if [ -f /tmp/wt-$g/SEEDED/$v/meta.json ]; then
        p=$(/venv/bin/python -c "import json;print(json.load(open('/tmp/wt-$g/SEEDED/$v/meta.json'))['property'][:3])")
        id=$(printf "S%02d-%s" $k $p); echo "#### $id ($g/$v)"
        /verif/tools/confirm_seeded.sh $id /tmp/wt-$g/SEEDED/$v $p | grep -E "patch|tests|demo|check"
      fi
      k=$((k+1))
    done ) > /dev/shm/confirm-round-$g.log 2>&1 &
  n=$((n+3))
done
wait
cat /dev/shm/confirm-round-*.log; rm -f /dev/shm/confirm-round-*.log
