#!/bin/bash
# usage: tools/run_equiv.sh <dir with patch.diff> [checks...]  - applies a behaviour-preserving change to a scratch copy of
# /repo HEAD, runs the 149 tests and the quick tier of the given checks (default: all 18); every check must stay silent.
# VERIF_SNAPSHOT=<dir>: run the checks from that copy of /verif (so that edits in /verif during a long batch do not mix in).
set -u
src=$(cd "$1" && pwd); shift
checks=${*:-C01 C02 C03 C04 C05 C06 C07 C08 C09 C10 C11 C12 C13 C14 C15 C16 C17 C18}
verif=${VERIF_SNAPSHOT:-/verif}
d=/dev/shm/equiv-$$; rm -rf $d; mkdir -p $d
git -C /repo archive HEAD | tar -x -C $d
(cd $d && patch -p1 -s < $src/patch.diff) || { echo "patch does not apply"; rm -rf $d; exit 2; }
t=$(cd $d && PYTHONPATH=$d /venv/bin/python -m pytest -q -p no:cacheprovider tests 2>&1 | tail -1)
echo "tests: $t"
bad=0
for c in $checks; do
  out=$(cd $verif && TFMON_REPO=$d TFMON_EVIDENCE_DIR=$d/ev TFMON_OUT_DIR=$d/out ./check $c --tier ${TIER:-quick} 2>&1); rc=$?
  if [ $rc -ne 0 ]; then bad=1; echo "ALARM $c rc=$rc $(echo "$out" | grep -E 'kind=|INCONCLUSIVE' | cut -c1-400 | head -3)"; mkdir -p $src/alarms; cp -r $d/out/replays/$c-* $src/alarms/ 2>/dev/null; fi
done
[ $bad -eq 0 ] && echo "silent on: $checks"
rm -rf $d
exit $bad
