#!/bin/bash
# usage: tools/run_equiv_batch.sh <lanes> [equivalent dirs...]  - snapshot /verif once, then run the equivalents in N lanes
lanes=$1; shift
snap=/dev/shm/verif-snap-$$; rm -rf $snap; mkdir -p $snap
(cd /verif && tar -c --exclude=.git --exclude=out --exclude=seeded --exclude=equivalents --exclude=evidence . ) | tar -x -C $snap
dirs=("$@"); [ ${#dirs[@]} -eq 0 ] && dirs=(/verif/equivalents/Q*)
i=0
for l in $(seq 1 $lanes); do
  ( j=0; for dd in "${dirs[@]}"; do if [ $((j % lanes)) -eq $((l-1)) ]; then VERIF_SNAPSHOT=$snap /verif/tools/run_equiv.sh $dd > $dd/result.txt 2>&1; fi; j=$((j+1)); done ) &
done
wait
rm -rf $snap
