#!/venv/bin/python
"""Regenerate /verif/MANIFEST.json from the table below (keeps it valid at all times)."""
import json
import os
import subprocess
import sys

HERE = os.path.dirname(os.path.dirname(os.path.abspath(__file__)))

FIX_COMMITS = subprocess.run(
    ["git", "-C", "/repo", "log", "--format=%h %s", "--grep=^fix:"], capture_output=True, text=True
).stdout.strip().splitlines()

CHECKS = {
    "C01": dict(
        category="exploration", design_ref="DESIGN.md 3 C01",
        technique="runtime monitoring: reference-model oracle over seeded histories, 4 configurations, index- and scan-served reads",
        text="Every count/search/contains/get/select answer produced by the real database during thousands of seeded histories "
             "(out-of-order and duplicate times, None values, all mutating ops, reopen/reindex) is compared with an independent "
             "reference model evaluated by an interpreter that shares no code with tinyflux; reach counters gate the verdict "
             "(both serving paths, every configuration, partial/empty/full results).",
        note="Held on the executions listed in the evidence; model = documented semantics (docs/ + docstrings); query depth <= 3 for generated ASTs; 12 / 45 / 700 (thorough: 3000) rows; registry test/map functions; aware comparison values; workers rotate time zone, warnings-as-errors and DEBUG logging (see DESIGN 6.2 for the strata).",
    ),
    "C02": dict(
        category="exploration", design_ref="DESIGN.md 3 C02",
        technique="runtime monitoring: reference-model oracle on removal return value, survivors and later reads, with history-free-twin attribution",
        text="Return value, survivors (order included) and every later query/getter read after remove/drop_measurement/remove_all "
             "are checked against the model in 4 configurations; no-match removals must leave CSV bytes unchanged; later-read "
             "differences are attributed to the removal only when a history-free twin with the same contents answers correctly.",
        note="Histories contain inserts (also batches failing part-way), removals, reindex and reopen only; 12 / 45 / 700 rows; queries depth <= 3.",
    ),
    "C03": dict(
        category="exploration", design_ref="DESIGN.md 3 C03",
        technique="runtime monitoring: reference-model oracle on update return value, merged contents, verbatim pass-through of unselected CSV rows, later reads",
        text="For every update/update_all (db, measurement-scoped, handle; every argument subset static/callable) the return value, "
             "the full contents afterwards and the raw CSV rows of unselected points are compared with the model's documented "
             "merge semantics; later reads attributed via a history-free twin; a separate pass with sequence-number callables "
             "checks that every selected point carries the result of a call made with its own old value and no result serves two points.",
        note="Updater callables from a fixed registry (plus the sequence-number callables); static falsy arguments only in the all-empty (ValueError) case.",
    ),
    "C04": dict(
        category="exploration", design_ref="DESIGN.md 3 C04",
        technique="runtime monitoring: file bytes after each completed call decoded by an independent reader and a fresh TinyFlux reader, compared with a memory-storage twin running the same operations",
        text="In 56 CSVStorage configurations (flush_on_insert x 4 encodings x 7 dialects, compact/default prefixes mixed) seeded "
             "histories with nasty strings interleave writes with early-terminating get/contains; after every call (flush=True) or "
             "after close (flush=False) the file bytes are decoded by a reader sharing no code with tinyflux and by a fresh "
             "TinyFlux(access_mode='r') and must equal the contents a memory-storage twin holds after the same operations.",
        note="admissible inputs only (encoding repertoire, rows the csv module round-trips under the dialect); newline=''; logic defects shared with the memory twin are counted, not attributed to C04.",
    ),
    "C05": dict(
        category="exploration", design_ref="DESIGN.md 3 C05",
        technique="runtime monitoring: round-trip oracle on the real codec (list level + csv module + insert/close/reopen) with an injectivity table over all points of the run",
        text="Seeded points with nasty strings in every string slot, random float64 bit patterns, +-0.0, infinities, subnormals, ints and "
             "microsecond times are pushed through Point._serialize_to_list -> csv -> _deserialize_from_list for both prefix styles and "
             "7 dialects and through insert/close/reopen; decoded must equal original (sign of zero included, tags stay tags, fields "
             "stay fields) and no two distinct originals may decode to the same point. Listed codec limits are recognised per differing "
             "slot by mechanism and reported as KNOWN-FINDING; the clean stratum avoids their triggers.",
        note="NaN never generated; a row only goes through a dialect the csv module itself round-trips (counted discards).",
    ),
    "C06": dict(
        category="exploration", design_ref="DESIGN.md 3 C06",
        technique="runtime monitoring: invariant at a hook (answer battery live index vs Index().build(storage)) over a bounded-exhaustive state-graph exploration + random histories",
        text="After every operation (incl. ones that raise) with index.valid true, ~200 answers (len/empty/latest_time, every getter, "
             "searches over time/measurement/tag/field atoms, negations, conjunctions) of the live Index are compared with a freshly "
             "built Index over the current storage; breadth-first over ALL distinct full internal states reachable within the depth "
             "bound of a 16-op alphabet (memory, auto_index on/off), all op sequences on CSV to a smaller depth, plus random histories; "
             "validity transitions (in-order insert keeps valid, read leaves valid) asserted.",
        note="exhaustive within the stated alphabet and depth; equivalence decided on the battery's answers, not private arrays.",
    ),
    "C07": dict(
        category="exploration", design_ref="DESIGN.md 3 C07",
        technique="runtime monitoring: reference-model oracle on every getter / len / iter / all after every mutation, index- and scan-served",
        text="All exploration getters, len, iteration and all() (db, filtered, handle; present/absent measurement; tag_keys selections) "
             "are compared with the model after every mutating op of seeded histories in 4 configurations, incl. None/''/line-break values.",
        note="Documented order taken from docs/exploring-data.rst; 12 / 45 / 700 rows.",
    ),
    "C08": dict(
        category="exploration", design_ref="DESIGN.md 3 C08",
        technique="runtime monitoring: integer-microsecond instant oracle (zoneinfo based) in worker processes with 4 local zones, observing returned times, get_timestamps, TimeQuery answers, sort stability",
        text="In processes whose local zone is UTC / America/Los_Angeles / Australia/Lord_Howe / Asia/Kathmandu, instants from years "
             "1700-2240 (adjacent microseconds, ties, float-precision boundaries, DST gaps/folds) presented as aware (fixed offset, IANA) "
             "or naive-local datetimes go through insert, update(time=static|callable), reopen and time-less stamping; every returned "
             "time must be tz-UTC aware and the exact instant; all six comparisons at every stored instant +-1us with the comparison "
             "value in random zones are compared with integer comparison (index- and scan-served); sorted results stable on ties.",
        note="years 1700-2240; comparison values timezone-aware; a naive value inside a repeated hour means the occurrence its fold attribute names (PEP 495); non-existent wall times are not generated.",
    ),
    "C09": dict(
        category="exploration", design_ref="DESIGN.md 3 C09",
        technique="runtime monitoring: independent interpreter vs real query objects, exhaustive over a finite vocabulary x 120-point universe; in-situ contract on CompoundQuery.__call__",
        text="Every atom, negation and binary combination of the operator vocabulary (exhaustive), depth-2/3 composites over a core and "
             "random depth 3-4 expressions are evaluated on every point of a universe holding all missing/None/''/zero/negative/"
             "equal-to-bound combinations by the real query and by an interpreter of the documented meaning; any exception is a violation.",
        note="exhaustive for the stated vocabulary and universe only; predicates total, map functions type preserving.",
    ),
    "C10": dict(
        category="exploration", design_ref="DESIGN.md 3 C10",
        technique="runtime monitoring: differential handle-vs-filtered-database oracle on a twin + reference model for isolation of other measurements",
        text="Every read, getter, len/iter/all, update, update_all, remove, remove_all and insert issued through db.measurement(name) "
             "(fresh, stale after cache clearing, absent names) is compared with the model restricted to name and with the equivalent "
             "database operation (on the live db for reads, on a deepcopy/file-copy twin for writes); points of other measurements must "
             "be untouched and never returned; inserted points must land under name.",
        note="measurement names non-empty; 12 / 45 rows; a defect shared identically by handle and database operation is not attributed to C10 (C06/C07 report those).",
    ),
    "C11": dict(
        category="fault_enumeration", design_ref="DESIGN.md 3 C11",
        technique="runtime monitoring with enumerated fault positions: failing calls injected after seeded histories; contents, C06 index battery and later operations compared with the reference model",
        text="A non-Point or raising generator at every position of insert_multiple, an update/update_all callable raising or returning an "
             "invalid value on the i-th selected point for every i, 23 invalid-argument calls over every entry point and 8 writes on a "
             "read-only database are injected after seeded prefix histories in 4 configurations; afterwards the contents must equal the "
             "pre-state (+ inserted prefix), the valid index must agree with a rebuild, and 5-10 further operations with ~24 reads each "
             "must agree with the model (attributed via a history-free twin).",
        note="positions enumerated exhaustively per history; single-slot misbehaving callables.",
    ),
    "C12": dict(
        category="fault_enumeration", design_ref="DESIGN.md 3 C12",
        technique="runtime monitoring with enumerated crash points: kernel-level snapshots of the file at every I/O call boundary (proxies inside tinyflux.storages), re-validated by SIGKILLing a traced child at every mutating syscall (strace)",
        text="While each mutating op of seeded histories runs, the database file is read through a separate kernel-level descriptor "
             "before every I/O call made by tinyflux.storages and after the last; every distinct snapshot must be openable by a fresh "
             "reader and decode to the old or the new contents (insert_multiple: old + prefix). A sample of ops is repeated in a child "
             "process killed by strace on entering each syscall that can change the file.",
        note="crash points are call/syscall boundaries; process death, not power loss; a torn single write(2) is not enumerated.",
    ),
    "C13": dict(
        category="fault_enumeration", design_ref="DESIGN.md 3 C13",
        technique="runtime monitoring with enumerated fault positions: OSError injected at every I/O call index (before effect; after effect for flush/fsync/close) via proxies, plus real errnos via strace; oracle on caller-visible error, live-object consistency (C06 battery) and file contents",
        text="For every I/O call index of every mutating op in seeded histories an ENOSPC/EIO is injected on a clone; the error must reach "
             "the caller as OSError, the live object must fail or answer consistently with its own storage (index battery vs rebuild, "
             "len, all), the file after close must decode to old or new, and the database must reopen and accept writes. Real errnos "
             "from strace (write/fsync/ftruncate/rename/openat...) re-validate a sample.",
        note="single fault per operation; injected at call boundaries inside tinyflux.storages (before the call; for flush/fsync/close also after it took effect) and, under strace, at system calls.",
    ),
    "C14": dict(
        category="exploration", design_ref="DESIGN.md 3 C14",
        technique="runtime monitoring: type sentinel hooked on storage.append (primary and temporary) + validity predicate on everything read back, over an exhaustive entry-point x slot x wrong-value battery",
        text="Exhaustive product of entry points (Point(), attribute assignment, insert(measurement=), update/update_all/handle variants, "
             "static or via callable) x 6 slots x wrongly typed values x {memory, CSV} x {auto_index on/off}: the call must raise "
             "ValueError/TypeError, the sentinel on storage.append must never see an invalid item and every point read back must be valid.",
        note="API paths only (in-place mutation of a Point's dicts is not an API path); falsy wrong values given directly as update(time=/measurement=) mean 'argument absent'.",
    ),
    "C15": dict(
        category="exploration", design_ref="DESIGN.md 3 C15",
        technique="runtime monitoring: sha256 of the database file and listings of a private temp directory and the database directory before/after every call",
        text="Before and after every op of seeded histories (mutating ops, ~22 reads/getters per step) and on databases opened with "
             "access modes r / r+ / a / w+, the file digest and both directory listings are taken: reads, getters, iteration, reindex, "
             "no-match removals, no-change updates and rejected writes (which must raise) leave the bytes identical; no call, returned "
             "or raised, leaves a new file in the temp or database directory.",
        note="private temp dir per run; unchanged = same bytes (not mtime).",
    ),
    "C16": dict(
        category="exploration", design_ref="DESIGN.md 3 C16",
        technique="runtime monitoring: I/O proxy call recorder on the primary handle + strace syscall log between marker syscalls, compared across database sizes",
        text="For 32 cases (auto_index, in/out-of-order, after get/contains/count, insert/insert_multiple) x database sizes 0..5000 "
             "the calls made on the database handle during insert are recorded: old bytes must be a prefix of the new bytes, no "
             "read/iterate call, no other file touched, identical call signature for every size and constant per point; the same on "
             "every insert of random histories and at syscall level with strace.",
        note="I/O cost = calls/syscalls on the database handle; CPU work is not measured.",
    ),
    "C17": dict(
        category="exploration", design_ref="DESIGN.md 3 C17",
        technique="runtime monitoring: all ordered pairs of an expression set compared with the real ==, hash and truth vectors; commutativity over all operand pairs",
        text="For all ordered pairs of ~1.5k (quick) / ~7k (thorough) expressions the real == is called; equal pairs must have equal truth "
             "vectors over the 120-point universe and equal hashes; a&b == b&a and a|b == b|a for all operand pairs incl. mixed "
             "simple/compound; expressions with map() equal nothing.",
        note="exhaustive over the stated expression set (de-duplicated by repr, so 1 / 1.0 / True twins stay apart); a bare noop() equals nothing by construction, compounds containing one take part in commutativity.",
    ),
    "C18": dict(
        category="exploration", design_ref="DESIGN.md 3 C18",
        technique="runtime monitoring: linear-scan oracle, exhaustive small lists + random floats; icontract postconditions on the real helpers in situ",
        text="All 792 sorted lists of length 0-7 over a 5-value domain x 11 probes x 5 helpers (exhaustive) plus random float lists against "
             "the linear-scan definition; the same postconditions are attached with icontract and evaluated during real index searches.",
        note="lists sorted, comparable numbers, no NaN.",
    ),
}

PENDING_REASON = "check not built yet in this round (planned in DESIGN.md section 3); not claimed until it runs clean on the unchanged tree"

ALL = [f"C{i:02d}" for i in range(1, 19)]


def main():
    extra = {}
    p = os.path.join(HERE, "tools", "manifest_extra.json")
    if os.path.exists(p):
        extra = json.load(open(p))
    checks = []
    for pid in ALL:
        c = CHECKS.get(pid)
        if not c:
            continue
        checks.append({
            "property_id": pid,
            "quick_cmd": f"./check {pid} --tier quick",
            "thorough_cmd": f"./check {pid} --tier thorough",
            "evidence_file": f"evidence/{pid}.json",
            "replay_cmd_template": f"./check {pid} --replay {{path}}",
            "engine": "tfmon",
            "level_claimed": {"category": c["category"], "text": c["text"], "design_ref": c["design_ref"]},
            "level_note": c["note"],
            "technique": c["technique"],
        })
    man = {
        "version": 1,
        "setup_cmd": "/venv/bin/pip install -q --no-index --find-links /opt/veriftools/wheels --target .deps icontract >/dev/null 2>&1; /venv/bin/python -m compileall -q tfmon >/dev/null; true",
        "hooks": {
            "guard": "none (no source hooks: all instrumentation is attached from the harness at run time)",
            "enable": "not needed; checks import /repo's working tree directly (TFMON_REPO overrides the path for self-tests)",
            "baseline_off_cmd": "cd /repo && /venv/bin/python -m pytest -ra -q -p no:cacheprovider --timeout=900 --continue-on-collection-errors",
            "source_commits": [],
            "add_only": True,
        },
        "engines": [{
            "name": "tfmon", "path": "tfmon/",
            "serves_properties": sorted(CHECKS),
            "kind_free_text": "runtime monitors: reference model + independent query interpreter, I/O proxies, strace fault injection, icontract contracts, sys.monitoring reach evidence",
        }],
        "checks": checks,
        "not_applicable": [{"property_id": pid, "reason": PENDING_REASON} for pid in ALL if pid not in CHECKS],
        "notes": "Unguarded fix: commits in /repo (see known_findings.json): " + "; ".join(FIX_COMMITS),
    }
    with open(os.path.join(HERE, "MANIFEST.json"), "w") as f:
        json.dump(man, f, indent=1)
        f.write("\n")
    # validate
    try:
        sys.path.insert(0, "/opt/veriftools/pyvenv/lib/python3.11/site-packages")
        import jsonschema

        jsonschema.validate(man, json.load(open("/root/.vp/MANIFEST.schema.json")))
        print("MANIFEST.json valid;", len(checks), "checks")
    except ImportError:
        print("jsonschema unavailable; wrote MANIFEST.json without validation")


if __name__ == "__main__":
    main()
