#!/bin/bash
# usage: tools/confirm_seeded.sh <seed-id> <dir with patch.diff demo.py meta.json> <check> [checks...]
# Confirms a seeded change on scratch copies of /repo HEAD (tests pass with it; demo fails with it, passes without)
# and runs the named checks against the changed copy. Nothing is applied to /repo. TIER=quick|thorough.
set -u
id=$1; src=$2; shift 2
dst=/verif/seeded/$id; mkdir -p $dst
cp $src/patch.diff $src/demo.py $src/meta.json $dst/ 2>/dev/null
base=/dev/shm/confirm-$id-$$; rm -rf $base; mkdir -p $base/with $base/without
git -C /repo archive HEAD | tar -x -C $base/with
git -C /repo archive HEAD | tar -x -C $base/without
(cd $base/with && patch -p1 -s < $dst/patch.diff) || { echo "== patch does not apply"; rm -rf $base; exit 2; }
t=$(cd $base/with && PYTHONPATH=$base/with /venv/bin/python -m pytest -q -p no:cacheprovider tests 2>&1 | tail -1); echo "== tests with change: $t"
(cd $base/with && PYTHONPATH=$base/with timeout 600 /venv/bin/python $dst/demo.py >/dev/null 2>&1); dw=$?; echo "== demo with change: exit $dw"
(cd $base/without && PYTHONPATH=$base/without timeout 600 /venv/bin/python $dst/demo.py >/dev/null 2>&1); dwo=$?; echo "== demo without change: exit $dwo"
res=""
for c in "$@"; do
  out=$(cd /verif && TFMON_REPO=$base/with TFMON_EVIDENCE_DIR=$base/ev TFMON_OUT_DIR=$base/out ./check $c --tier ${TIER:-quick} 2>&1); rc=$?
  kinds=$(echo "$out" | grep -o "kind=[a-zA-Z0-9_-]*" | sort | uniq -c | tr '\n' ' ')
  echo "== check $c rc=$rc $kinds"
  res="$res $c:rc$rc"
done
echo "{\"tests\": \"$t\", \"demo_with\": $dw, \"demo_without\": $dwo, \"checks\": \"$res\"}" > $dst/confirmed.json
rm -rf $base
