#!/bin/bash
# usage: tools/run_seeded.sh <seeded-id> <check> [checks...]   (TIER=quick|thorough)
# Applies seeded/<id>/patch.diff to a scratch copy of /repo (never to /repo itself) and runs checks against it.
set -u
id=$1; shift
d=/dev/shm/seed-$id-$$; rm -rf $d; mkdir -p $d
git -C /repo archive HEAD | tar -x -C $d
(cd $d && patch -p1 -s < /verif/seeded/$id/patch.diff) || { echo "patch does not apply"; rm -rf $d; exit 2; }
for c in "$@"; do
  out=$(cd /verif && TFMON_REPO=$d TFMON_EVIDENCE_DIR=$d/ev TFMON_OUT_DIR=$d/out ./check $c --tier ${TIER:-quick} 2>&1); rc=$?
  kinds=$(echo "$out" | grep -o "kind=[a-zA-Z0-9_-]*" | sort | uniq -c | tr '\n' ' ')
  echo "$id $c rc=$rc $kinds"
done
rm -rf $d
