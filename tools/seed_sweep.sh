#!/bin/bash
# usage: tools/seed_sweep.sh <tier> <seed...>   - runs every check for each seed, prints one line per run
tier=$1; shift
for s in "$@"; do
  for c in C01 C02 C03 C04 C05 C06 C07 C08 C09 C10 C11 C12 C13 C14 C15 C16 C17 C18; do
    out=$(VERIF_SEED=$s ./check $c --tier $tier 2>&1); rc=$?
    echo "seed=$s $c rc=$rc $(echo "$out" | grep -E 'verdict=' | cut -c1-120) $(echo "$out" | grep -E '^VIOLATION|^INCONCLUSIVE|kind=' | cut -c1-300 | head -3 | tr '\n' ' ')"
  done
done
