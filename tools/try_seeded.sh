#!/bin/bash
# usage: tools/try_seeded.sh <seed-id> <worktree> <check> [more checks...]
# Confirms a seeded change (tests pass, demo fails with / passes without) and runs checks against the changed tree.
set -u
id=$1; wt=$2; shift 2
dst=/verif/seeded/$id
mkdir -p $dst
cp $wt/SEEDED/patch.diff $wt/SEEDED/demo.py $wt/SEEDED/meta.json $dst/ 2>/dev/null
cd $wt
echo "== tree: $(PYTHONPATH=$wt /venv/bin/python -c 'import tinyflux;print(tinyflux.__file__)')"
t=$(PYTHONPATH=$wt /venv/bin/python -m pytest -q -p no:cacheprovider tests 2>&1 | tail -1); echo "== tests with change: $t"
PYTHONPATH=$wt /venv/bin/python SEEDED/demo.py >/dev/null 2>&1; dw=$?; echo "== demo with change: exit $dw"
# pristine copy (git stash is shared between worktrees - never use it here)
clean=/dev/shm/clean-$id; rm -rf $clean; mkdir -p $clean; git archive HEAD | tar -x -C $clean
PYTHONPATH=$clean /venv/bin/python SEEDED/demo.py >/dev/null 2>&1; dwo=$?; echo "== demo without change: exit $dwo"
rm -rf $clean
git diff -- tinyflux > $dst/patch.diff
res=""
for c in "$@"; do
  out=$(cd /verif && TFMON_REPO=$wt TFMON_EVIDENCE_DIR=/dev/shm/seeded-ev TFMON_OUT_DIR=/dev/shm/seeded-out ./check $c --tier ${TIER:-quick} 2>&1)
  rc=$?
  kinds=$(echo "$out" | grep -o "kind=[a-zA-Z0-9_-]*" | sort | uniq -c | tr '\n' ' ')
  echo "== check $c rc=$rc $kinds"
  res="$res $c:rc$rc"
done
echo "{\"tests\": \"$t\", \"demo_with\": $dw, \"demo_without\": $dwo, \"checks\": \"$res\"}" > $dst/confirmed.json
